#!/usr/bin/env python3
"""Automatic source mutants of the library, used to measure what the checks detect.

    mutate.py list  <file-relative-to-repo> [--seed S] [--per-func N]      -> JSON lines of mutants
    mutate.py run   <out.jsonl> [--files f1,f2,..] [--seed S] [--per-func N] [--workers W] [--procs P] [--tests]

Each mutant is one small textual edit located through the Python AST (operator swap, comparison boundary, small integer
constant +-1 inside subscripts / ranges, dropped .copy(), dropped conjugation, swapped transpose axes, flipped boolean
keyword, changed 0.5/2 factor).  `run` applies every mutant in a scratch worktree of /repo (under /tmp, removed at the
end), runs the quick check(s) mapped to the mutated function with VERIF_REPO pointing to the worktree, and records
whether the check reported a violation.  With --tests the repository's test suite is run for the mutants the checks
did not flag (to tell "valid" mutants from those the tests already kill).  Nothing is written to /repo.
"""
import argparse
import ast
import json
import os
import random
import re
import shutil
import subprocess
import sys
import tempfile
from concurrent.futures import ThreadPoolExecutor

REPO = '/repo'
VERIF = os.path.dirname(os.path.dirname(os.path.abspath(__file__)))

FILE_CHECKS = {
    'scikit_tt/solvers/sle.py': ['C07'],
    'scikit_tt/solvers/evp.py': ['C08'],
    'scikit_tt/slim.py': ['C12'],
    'scikit_tt/data_driven/ulam.py': ['C12'],
    'scikit_tt/models.py': ['C13'],
    'scikit_tt/data_driven/regression.py': ['C16'],
    'scikit_tt/data_driven/tdmd.py': ['C17'],
    'scikit_tt/data_driven/tedmd.py': ['C18'],
    'scikit_tt/data_driven/tgedmd.py': ['C19'],
    'scikit_tt/quantum_computation.py': ['C20'],
}
FUNC_CHECKS = {
    'scikit_tt/tensor_train.py': [
        (r'^(__init__)$', ['C04', 'C01']),
        (r'^(__add__|__sub__|__mul__|__rmul__|__matmul__|dot|transpose|conj|isoperator|copy|element|full|matricize|norm|'
         r'zeros|ones|eye|unit|rand|canonical|uniform|residual_error)$', ['C01']),
        (r'^(tensordot|rank_tensordot|concatenate|rank_transpose|tt2qtt|qtt2tt|diag|squeeze|build_core_vector|build_core)$', ['C02']),
        (r'^(ortho_left|ortho_right|ortho)$', ['C03', 'C04']),
        (r'^(svd|pinv)$', ['C05']),
    ],
    'scikit_tt/solvers/ode.py': [
        (r'^(explicit_euler|errors_expl_euler|hod|implicit_euler|errors_impl_euler|trapezoidal_rule|errors_trapezoidal|adaptive_step_size)$', ['C09']),
        (r'^(lie_splitting|strang_splitting|yoshida_splitting|kahan_li_splitting|__splitting_propagators|__splitting_stage)$', ['C10']),
        (r'^(tdvp|tdvp1site|tdvp2site|__update_core_tdvp|__update_core_tdvp2site|krylov|__construct.*)$', ['C11']),
    ],
    'scikit_tt/data_driven/transform.py': [
        (r'^(basis_decomposition|coordinate_major|function_major|gram|hocur|__hocur.*)$', ['C15']),
        (r'.*', ['C14', 'C15']),
    ],
}


def checks_for(path, func):
    if path in FILE_CHECKS:
        return FILE_CHECKS[path]
    for rx, cs in FUNC_CHECKS.get(path, []):
        if re.match(rx, func or ''):
            return cs
    return []


class Collector(ast.NodeVisitor):
    def __init__(self, src):
        self.src = src
        self.lines = src.split('\n')
        self.off = [0]
        for l in self.lines:
            self.off.append(self.off[-1] + len(l) + 1)
        self.func = []
        self.cls = []
        self.out = []
        self.in_sub = 0

    def pos(self, node):
        return self.off[node.lineno - 1] + node.col_offset, self.off[node.end_lineno - 1] + node.end_col_offset

    def seg(self, node):
        a, b = self.pos(node)
        return self.src[a:b]

    def add(self, kind, a, b, new, node):
        if self.func and self.src[a:b] != new:
            self.out.append(dict(kind=kind, func=self.func[-1], line=node.lineno, start=a, end=b, old=self.src[a:b], new=new))

    def visit_FunctionDef(self, node):
        self.func.append(node.name if not self.func else self.func[0])   # nested helpers count for the outer function
        doc = ast.get_docstring(node)
        for ch in node.body:
            if doc is not None and isinstance(ch, ast.Expr) and isinstance(getattr(ch, 'value', None), ast.Constant) \
                    and isinstance(ch.value.value, str):
                continue
            self.visit(ch)
        self.func.pop()

    def visit_Raise(self, node):
        return                      # error messages are not behaviour under test

    def between(self, left, right):
        a = self.pos(left)[1]
        b = self.pos(right)[0]
        return a, b

    def visit_BinOp(self, node):
        swap = {ast.Add: '-', ast.Sub: '+'}
        if type(node.op) in swap:
            a, b = self.between(node.left, node.right)
            txt = self.src[a:b]
            sym = '+' if isinstance(node.op, ast.Add) else '-'
            if txt.count(sym) == 1:
                k = a + txt.index(sym)
                self.add('addsub', k, k + 1, swap[type(node.op)], node)
        self.generic_visit(node)

    def visit_AugAssign(self, node):
        if isinstance(node.op, (ast.Add, ast.Sub)):
            a, b = self.between(node.target, node.value)
            txt = self.src[a:b]
            sym = '+=' if isinstance(node.op, ast.Add) else '-='
            if sym in txt:
                k = a + txt.index(sym)
                self.add('augassign', k, k + 2, '=' if isinstance(node.op, ast.Add) else '+=', node)
        self.generic_visit(node)

    def visit_Compare(self, node):
        if len(node.ops) == 1:
            m = {ast.Lt: ('<', '<='), ast.LtE: ('<=', '<'), ast.Gt: ('>', '>='), ast.GtE: ('>=', '>'),
                 ast.Eq: ('==', '!='), ast.NotEq: ('!=', '==')}
            t = type(node.ops[0])
            if t in m:
                a, b = self.between(node.left, node.comparators[0])
                txt = self.src[a:b]
                old, new = m[t]
                if txt.strip() == old:
                    k = a + txt.index(old)
                    self.add('compare', k, k + len(old), new, node)
        self.generic_visit(node)

    def visit_Subscript(self, node):
        self.visit(node.value)
        self.in_sub += 1
        self.visit(node.slice)
        self.in_sub -= 1

    def visit_Constant(self, node):
        v = node.value
        a, b = self.pos(node)
        if isinstance(v, bool):
            return
        if isinstance(v, int) and self.in_sub and 0 <= v <= 3 and self.src[a:b] == str(v):
            self.add('index', a, b, str(v + 1), node)
            if v >= 1:
                self.add('index', a, b, str(v - 1), node)
        if isinstance(v, float) and v == 0.5:
            self.add('half', a, b, '1.0', node)

    def visit_UnaryOp(self, node):
        if isinstance(node.op, ast.USub) and not isinstance(node.operand, ast.Constant):
            a, b = self.pos(node)
            self.add('neg', a, b, self.seg(node.operand), node)
        self.generic_visit(node)

    def visit_Call(self, node):
        f = node.func
        if isinstance(f, ast.Attribute) and f.attr == 'copy' and not node.args and not node.keywords:
            a, b = self.pos(node)
            self.add('copy', a, b, self.seg(f.value), node)
        if isinstance(f, ast.Attribute) and f.attr in ('conj', 'conjugate') and len(node.args) == 1 and \
                isinstance(f.value, ast.Name) and f.value.id == 'np':
            a, b = self.pos(node)
            self.add('conj', a, b, self.seg(node.args[0]), node)
        if isinstance(f, ast.Attribute) and f.attr in ('conj', 'conjugate') and not node.args and \
                not (isinstance(f.value, ast.Name) and f.value.id == 'np'):
            a, b = self.pos(node)
            self.add('conj', a, b, self.seg(f.value), node)
        if isinstance(f, ast.Attribute) and f.attr == 'transpose' and node.args:
            arg = node.args[0]
            elts = arg.elts if isinstance(arg, (ast.List, ast.Tuple)) else (node.args if len(node.args) > 2 else None)
            if elts and len(elts) >= 3 and all(isinstance(e, ast.Constant) for e in elts):
                i = len(elts) // 2
                a1, b1 = self.pos(elts[i - 1])
                a2, b2 = self.pos(elts[i])
                new = self.src[a2:b2] + self.src[b1:a2] + self.src[a1:b1]
                self.add('axes', a1, b2, new, node)
        if isinstance(f, ast.Attribute) and f.attr == 'range' or (isinstance(f, ast.Name) and f.id == 'range'):
            for arg in node.args:
                if isinstance(arg, ast.Constant) and isinstance(arg.value, int) and 0 <= arg.value <= 2:
                    a, b = self.pos(arg)
                    self.add('range', a, b, str(arg.value + 1), node)
        for kw in node.keywords:
            if isinstance(kw.value, ast.Constant) and isinstance(kw.value.value, bool) and kw.arg in (
                    'conjugate', 'overwrite', 'overwrite_a', 'ortho_l', 'ortho_r', 'full_matrices'):
                a, b = self.pos(kw.value)
                self.add('bool', a, b, str(not kw.value.value), node)
        self.generic_visit(node)


def mutants_of(path, seed=0, per_func=6):
    src = open(os.path.join(REPO, path)).read()
    c = Collector(src)
    c.visit(ast.parse(src))
    byf = {}
    for m in c.out:
        if checks_for(path, m['func']):
            byf.setdefault(m['func'], []).append(m)
    rng = random.Random(seed)
    out = []
    for f in sorted(byf):
        ms = byf[f]
        rng.shuffle(ms)
        out += ms[:per_func]
    for k, m in enumerate(out):
        m['file'] = path
        m['id'] = '%s:%s:%d:%s:%d' % (os.path.basename(path), m['func'], m['line'], m['kind'], k)
        m['checks'] = checks_for(path, m['func'])
    return src, out


class _Res:
    def __init__(self, rc, out):
        self.returncode, self.stdout = rc, out


def _run_group(cmd, cwd, env, timeout):
    """run a command in its own process group; on timeout the whole group (worker processes included) is killed"""
    import signal
    pr = subprocess.Popen(cmd, cwd=cwd, env=env, stdout=subprocess.PIPE, stderr=subprocess.STDOUT, text=True, start_new_session=True)
    try:
        out, _ = pr.communicate(timeout=timeout)
        return _Res(pr.returncode, out)
    except subprocess.TimeoutExpired:
        try:
            os.killpg(pr.pid, signal.SIGKILL)
        except Exception:
            pass
        out, _ = pr.communicate()
        return _Res(-9, (out or '') + '\nTIMEOUT')


def run_one(wt, src, m, procs, with_tests):
    path = os.path.join(wt, m['file'])
    new = src[:m['start']] + m['new'] + src[m['end']:]
    try:
        compile(new, path, 'exec')
    except SyntaxError:
        return dict(m, verdict='syntax')
    with open(path, 'w') as f:
        f.write(new)
    res = dict(m, caught_by=[], quiet=[])
    try:
        env = dict(os.environ, VERIF_REPO=wt, VERIF_PROCS=str(procs), VERIF_NO_EVIDENCE='1', VERIF_CALL_TIMEOUT='120')
        for chk in m['checks']:
            p = _run_group([os.path.join(VERIF, 'check'), chk], cwd=VERIF, env=env, timeout=1500)
            if p.returncode == 1 and 'VIOLATION' in p.stdout:
                res['caught_by'].append(chk)
                sig = re.findall(r'^  \[([^\]]*)\]', p.stdout, re.M)
                res['signatures'] = sig[:3]
                break
            elif p.returncode == 0:
                res['quiet'].append(chk)
            else:
                res.setdefault('machinery', []).append((chk, p.stdout[-400:]))
        res['verdict'] = 'caught' if res['caught_by'] else ('machinery' if res.get('machinery') else 'missed')
        if res['verdict'] == 'missed' and with_tests:
            p = subprocess.run(['/venv/bin/python', '-m', 'pytest', '-q', '-p', 'no:cacheprovider', '-n', '4', '-x', 'tests'],
                               cwd=wt, env=dict(os.environ, OMP_NUM_THREADS='2'), stdout=subprocess.PIPE,
                               stderr=subprocess.STDOUT, text=True, timeout=3000)
            tail = p.stdout.strip().split('\n')[-1]
            failed = [l for l in p.stdout.split('\n') if l.startswith('FAILED') and 'test_tdmd' not in l]
            res['tests'] = 'killed' if failed else 'pass'
            res['tests_tail'] = tail
    finally:
        with open(path, 'w') as f:
            f.write(src)
    return res


def main():
    ap = argparse.ArgumentParser()
    ap.add_argument('cmd', choices=['list', 'run'])
    ap.add_argument('target')
    ap.add_argument('--files', default='')
    ap.add_argument('--seed', type=int, default=0)
    ap.add_argument('--per-func', type=int, default=6)
    ap.add_argument('--workers', type=int, default=3)
    ap.add_argument('--procs', type=int, default=4)
    ap.add_argument('--tests', action='store_true')
    ap.add_argument('--only', default='', help='substring of mutant ids to (re)run')
    a = ap.parse_args()
    if a.cmd == 'list':
        _, ms = mutants_of(a.target, a.seed, a.per_func)
        for m in ms:
            print(json.dumps(m))
        return
    files = a.files.split(',') if a.files else sorted(set(FILE_CHECKS) | set(FUNC_CHECKS))
    jobs = []
    for f in files:
        src, ms = mutants_of(f, a.seed, a.per_func)
        jobs += [(f, src, m) for m in ms]
    done = set()
    if os.path.exists(a.target):
        for l in open(a.target):
            try:
                done.add(json.loads(l)['id'])
            except Exception:
                pass
    jobs = [j for j in jobs if (a.only in j[2]['id'] if a.only else j[2]['id'] not in done)]
    print('%d mutants to run' % len(jobs), flush=True)
    wts = []
    for k in range(a.workers):
        wt = tempfile.mkdtemp(prefix='mutwt_')
        shutil.rmtree(wt)
        subprocess.run(['git', '-C', REPO, 'worktree', 'add', '-q', '--detach', wt, 'HEAD'], check=True)
        wts.append(wt)
    try:
        import queue
        q = queue.Queue()
        for w in wts:
            q.put(w)

        def work(job):
            f, src, m = job
            wt = q.get()
            try:
                r = run_one(wt, src, m, a.procs, a.tests)
            except Exception as e:
                r = dict(m, verdict='error', error=repr(e))
            finally:
                q.put(wt)
            with open(a.target, 'a') as out:
                out.write(json.dumps(r) + '\n')
            print(r['id'], r['verdict'], r.get('caught_by'), r.get('tests', ''), flush=True)
        with ThreadPoolExecutor(max_workers=a.workers) as ex:
            list(ex.map(work, jobs))
    finally:
        for wt in wts:
            subprocess.run(['git', '-C', REPO, 'worktree', 'remove', '--force', wt])
        subprocess.run(['git', '-C', REPO, 'worktree', 'prune'])


if __name__ == '__main__':
    main()
