#!/bin/bash
# usage: seed_run_wt.sh <seed-id> <property> [tier]
# Applies /verif/seeded/<seed-id>/patch.diff in a scratch worktree of /repo (under /tmp, removed afterwards) and runs the
# check against it (VERIF_REPO); /repo itself is not touched, the evidence file of the property is restored.
sid=$1; pid=$2; tier=${3:-quick}
wt=/tmp/seedwt_${sid}_$$
cd /verif
git -C /repo worktree add -q --detach $wt HEAD || exit 2
trap 'git -C /repo worktree remove --force '$wt' 2>/dev/null; git -C /repo worktree prune' EXIT
git -C $wt apply /verif/seeded/$sid/patch.diff || { echo "patch does not apply"; exit 2; }
cp evidence/$pid.json /tmp/ev_${pid}_$$.bak 2>/dev/null
VERIF_REPO=$wt ./check $pid --tier $tier > /tmp/seedrun_${sid}_$pid.log 2>&1; rc=$?
cp /tmp/ev_${pid}_$$.bak evidence/$pid.json 2>/dev/null; rm -f /tmp/ev_${pid}_$$.bak
echo "seed=$sid check=$pid tier=$tier exit=$rc"; grep -E "^VIOLATION|^  \[" /tmp/seedrun_${sid}_$pid.log | head -6 | cut -c1-250
