#!/bin/bash
# usage: seed_confirm.sh <worktree> <seed-id> <property>   (confirms a seeded change and archives it under /verif/seeded/<seed-id>)
wt=$1; sid=$2; pid=$3; export OMP_NUM_THREADS=2
out=/verif/seeded/$sid; mkdir -p $out
cd $wt || exit 2
git diff -- scikit_tt > $out/patch.diff
[ -s $out/patch.diff ] || { echo "empty patch"; exit 2; }
demo=$(ls demo_*.py | head -1)
cp $demo $out/
export OMP_NUM_THREADS=2
timeout 600 /venv/bin/python $demo > $out/demo_with.log 2>&1; with=$?
git stash -q
timeout 600 /venv/bin/python $demo > $out/demo_without.log 2>&1; without=$?
git stash pop -q
git -C /repo apply --check $out/patch.diff 2>$out/apply_check.log; applies=$?
timeout 3000 /venv/bin/python -m pytest -q -p no:cacheprovider -n 6 --timeout=900 --continue-on-collection-errors tests > $out/tests_with.log 2>&1
tail -1 $out/tests_with.log > $out/tests_summary.txt
echo "$sid property=$pid demo_with=$with demo_without=$without applies_to_repo_head=$applies tests: $(cat $out/tests_summary.txt)"
