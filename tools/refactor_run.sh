#!/bin/bash
# usage: refactor_run.sh <patch-file> <property>...   (behaviour-preserving change: every listed check must stay quiet)
# Applies the patch in a scratch worktree of /repo HEAD (under /tmp, removed afterwards) and runs the quick checks
# against it via VERIF_REPO; evidence files are restored afterwards.
patch=$(readlink -f $1); shift
wt=/tmp/refwt_$$
cd /verif
git -C /repo worktree add -q --detach $wt HEAD || exit 2
trap 'git -C /repo worktree remove --force '$wt' 2>/dev/null; git -C /repo worktree prune' EXIT
git -C $wt apply $patch || { echo "patch does not apply"; exit 2; }
for pid in "$@"; do
  cp evidence/$pid.json /tmp/ev_${pid}_$$.bak 2>/dev/null
  VERIF_REPO=$wt ./check $pid > /tmp/refrun_$$_$pid.log 2>&1; rc=$?
  cp /tmp/ev_${pid}_$$.bak evidence/$pid.json 2>/dev/null; rm -f /tmp/ev_${pid}_$$.bak
  echo "$(basename $(dirname $patch))/$(basename $patch) check=$pid exit=$rc $(grep -v conda /tmp/refrun_$$_$pid.log | tail -1 | cut -c1-100)"
  grep -E "^VIOLATION|^  \[|MACHINERY|Error" /tmp/refrun_$$_$pid.log | head -8 | cut -c1-300
done
