#!/venv/bin/python
import json,sys
for f in sys.argv[1:]:
    r=json.load(open(f))
    print(r['signature'],'|',r['message'][:160])
    rp=r['replay']
    for i,e in enumerate(rp.get('history',[])):
        mark='>>' if i==rp.get('event') else '  '
        if e['op']=='New':
            o=e['new'][0]; print(mark,'New rd=%s cd=%s rk=%s'%(o['d']['rd'],o['d']['cd'],o['rk']))
        else:
            print(mark,{k:v for k,v in e.items() if k not in('new','mod','res','val','matrix','list')}, 'new:',[(o['d']['rd'],o['rk'],o['st']) for o in e['new']],'mod:',[(m[0],m[1]['st'],m[1]['rk']) for m in e['mod']])
