#!/venv/bin/python
"""Regenerates MANIFEST.json from the table below (single source of truth for the interface)."""
import json, os
V = os.path.dirname(os.path.dirname(os.path.abspath(__file__)))
props = [json.loads(l) for l in open(os.path.join(V, 'properties.jsonl'))]

MC = 'model_checking'
CHECKS = {
 'C01': dict(engine='pool', tech='TLA+ pool machine (spec/TTPool.tla, exact Gaussian-integer dense semantics in spec/TTBase.tla) enumerated exhaustively by TLC; every generated behaviour replayed into scikit_tt with per-step projection of all live objects',
             text='TLC enumerates every shape vector (orders 1..3 quick / 1..4 thorough, mode sizes {1,2}, ranks {1,2}(,3), real/complex/mixed fills) and every enabled value-level action of the TT pool machine, computes the exact expected dense value in integer arithmetic, and each behaviour is replayed into the real code; model-level invariants (value semantics, metadata consistency) are checked by TLC on the same state space.',
             note='trusted: TLC, spec/TTBase.tla dense semantics, harness/pool.py projection (einsum over .cores); integer inputs so float results are exact up to 1e-9 relative', ref='§5 C01'),
 'C02': dict(engine='pool', tech='TLA+ pool machine (spec/TTPool.tla; dense definitions DTensordot/DConcatG/DDiag/DSqueeze/DSplit/DMerge in spec/TTBase.tla) enumerated by TLC; behaviours replayed into scikit_tt',
             text='TLC enumerates operand shapes (incl. size-1 modes, rank-1 bonds, open boundary ranks), all four contraction modes with every axis count incl. complete contraction, mode factorisations and zero-block placements, computes the exact dense result and mode ordering, and every behaviour is replayed into the real code.',
             note='trusted: TLC, spec/TTBase.tla dense definitions, harness/pool.py projection; ranks of results only checked for consistency with cores', ref='§5 C02'),
 'C03': dict(engine='pool', tech='TLA+ pool machine gauge actions (GaugeLeft/GaugeRight bookkeeping of isometry flags, rank bounds, touched cores in spec/TTPool.tla) enumerated by TLC; behaviours replayed into scikit_tt',
             text='TLC enumerates all shapes x fills (real, complex, rank-deficient, zero cores, over-parameterised ranks) and every admissible (start,end) of the left/right sweeps and ortho(), as one- and two-step histories; the model predicts the unchanged dense value, the cores that must be isometries, rank bounds and untouched cores; the replay checks each on the real object.',
             note='trusted: TLC, spec gauge bookkeeping, harness/pool.py (isometry defect <= 1e-10, value 1e-9 relative)', ref='§5 C03'),
 'C06': dict(engine='pool', tech='TLA+ pool machine with value semantics (action property ValueSemantics checked by TLC); TLC enumerates call histories producer -> in-place over a pool of live objects; every live object projected and compared after every replayed step',
             text='All two- and three-step histories (producer calls then in-place/overwrite calls on any live object) over shapes with rank-1 bonds and size-1 modes are enumerated by TLC from the pool machine; the real code is stepped along each and every live object is compared with the model state after every step, so a change of any non-target object (hidden aliasing or mutation) is a rejected trace.',
             note='trusted: TLC, value-semantics model, harness/pool.py; routine calls (solvers, integrators, data-driven) are covered by the recorded-trace direction, see DESIGN', ref='§5 C06'),
 'C04': dict(engine='pool', tech='TLA+ islands (spec/Islands.tla: odeco tensors with planted integer singular values, unimodular gauges) + pool actions IslOrthoTrunc/FromArray/OrthoTrunc; TLC computes the exact truncated tensor, ranks and squared errors; behaviours replayed into scikit_tt',
             text='For every island x gauging x per-bond cap list and every (max_rank, threshold) of TT(array) TLC predicts the truncated tensor exactly (distinct spectra) or its error and ranks (ties); for all small general integer tensors the replay checks the rank cap, exactness without truncation and the quasi-optimality / threshold error bounds against the singular values of the exact unfoldings.',
             note='trusted: TLC, Islands.tla (construction checked by TLC: IslCoresOK, QOK), numpy svd of exact unfoldings for the bounds on general tensors', ref='§5 C04'),
 'C05': dict(engine='pool', tech='TLA+ pool actions SvdO/PinvO on generic fills and on islands with planted spectra; TLC enumerates split indices, options and overwrite; replay checks isometries, reconstruction, singular values, Penrose pseudoinverse and operand-unchanged',
             text='TLC enumerates all vector-type shapes x fills (incl. rank-deficient) x split indices x overwrite and the island catalogue x thresholds x rank caps x ortho flags (flags only after the matching sweep, as two-step histories); the model supplies the exact unfolding and planted spectrum, fixes which options have a determined effect, and requires the operand to be unchanged unless overwritten.',
             note='trusted: TLC, Islands.tla, numpy.linalg.svd/pinv of the exact integer unfolding as evaluator for general tensors', ref='§5 C05'),
 'C12': dict(engine='cases', tech='TLA+ reference semantics by state enumeration (spec/Slim.tla: master-equation generator as sum of elementary reaction terms; Ulam count tables), configurations enumerated by TLC, reference checked by TLC invariants (ColumnSumsZero, OffDiagNonNeg), results replayed against slim_mme / slim_mme_hom / ulam_2d / ulam_3d',
             text='TLC enumerates state-space vectors with equal and unequal cell sizes, reaction-list shapes and seeds, open/cyclic, the homogeneous wrapper, every single two-cell reaction on two cells, and Ulam tables with duplicates and unsampled boxes; it computes the exact generator / count table and checks the generator invariants on the reference; the library operator is contracted and compared entry-wise.',
             note='trusted: TLC, spec/Slim.tla, harness contraction; integer rates', ref='§5 C12'),
 'C20': dict(engine='cases', tech='TLA+ state machine of site-by-site inverse-CDF sampling with exact integer Born marginals (spec/Sampling.tla; invariants ChainRule, PrefixPossible checked by TLC); TLC-generated behaviours (variates -> samples) replayed into quantum_computation.sampling with patched numpy.random.rand',
             text='TLC runs the sampling machine for every qubit count <= 4, rank profile, real/complex fill, non-empty measured subset and variate matrix in bounds, checks the chain rule in every state, and emits the exactly predicted distinct bit strings and frequencies; the real sampler fed with the same variates must reproduce them exactly; a seeded 20000-sample run must be within total variation 0.05 of the exact marginal.',
             note='trusted: TLC, spec/Sampling.tla, unittest.mock patch of numpy.random.rand; state prepared by ortho_right + normalisation (covered by C03)', ref='§5 C20'),
 'C13': dict(engine='cases', tech='TLA+ reference definitions of the bundled models (spec/Models.tla: Ising energy, exciton Hamiltonian, bit-reversed DFT exponent tables, FPU/Kuramoto right-hand sides, fractal seeds and Kronecker powers) enumerated over the size/parameter grid by TLC; replay compares with scikit_tt.models or checks generator / unitary structure',
             text='TLC enumerates every model size and parameter combination in the grid and computes the exact reference tensor or table in integer arithmetic (with model-level sanity invariants); the replay builds the model with the library and compares entry-wise, checks column sums / off-diagonal signs (dense, or in TT form for sizes that do not fit) and unitarity.',
             note='trusted: TLC, spec/Models.tla, numpy for omega^E and dense products; Shor oracle unitarity in TT form uses library arithmetic (C01)', ref='§5 C13'),
 'C14': dict(engine='cases', tech='basis-function families transcribed as TLA+ expression trees (spec/Calculus.tla); TLC computes gradient and Hessian by symbolic differentiation, proves off-coordinate derivatives structurally zero (invariant ZeroOffCoordinate) and enumerates family x parameter x index x point; generic evaluator + replay against the library objects',
             text='TLC is used as symbolic engine and case enumerator (no interleavings exist here): for every family, parameter set, dimension, coordinate and rational point it emits value, gradient and full Hessian expressions; the library value, partial, partial2 (all direction pairs), gradient, hessian and array evaluation must agree to 1e-9.',
             note='trusted: TLC derivative operator D, harness/evaluator.py; assumes the documented formulas of the families', ref='§5 C14'),
 'C15': dict(engine='cases', tech='TLA+ reference of transformed data tensors (spec/Transform.tla: leaves per layout, exact integer tensor and Gram matrix computed by TLC; CalcBase family expressions), configurations enumerated by TLC, replay against basis_decomposition / coordinate_major / function_major / gram / hocur',
             text='TLC enumerates dimension, snapshot count (incl. 1), modes, function lists (incl. single-function modes, indicator and transcendental mixtures), the three layouts with add_one on/off and Gram pairs, and computes the exact tensor for integer bases; the library train, every single core, the Gram matrix and the HOCUR result (ranks = #snapshots, int and re-used list form) are compared.',
             note='trusted: TLC, harness/evaluator.py for transcendental leaves (cross-checked against TLC on exact cases); known finding F11 (HOCUR candidate deficiency) is classified by an explicit rank test of the documented initial candidate columns', ref='§5 C15'),
 'C07': dict(engine='cases', tech='TLA+ islands for linear systems (spec/LinSolve.tla: A = G^H G + cI with exact TT cores via the core algebra of TTBase, planted full-rank solution, b = A xs exact; model-level invariants b = A xs, A Hermitian), rank profiles enumerated by TLC; replay of sle.als / sle.mals with the solver contract',
             text='TLC enumerates mode sizes, operator ranks, real/complex data and every admissible rank profile of planted solution and guess, and constructs the exact integer cores of A, xs, b, x0; the real solvers (both micro-solvers, repeats 0..3, MALS rank caps) must return the planted solution from the exact and from maximal-rank guesses, never increase the energy error, respect dims and rank bounds and leave their arguments unchanged.',
             note='trusted: TLC core algebra, numpy evaluation of the energy from exact dense A and xs; guesses restricted to full-rank interfaces', ref='§5 C07'),
 'C08': dict(engine='cases', tech='TLA+ islands for Hermitian (generalised) eigenproblems (spec/EigSolve.tla on LinSolve.tla: exact TT cores of A = G^H G + 2I or G + G^H, B = C^H C + I, full-rank guesses at every admissible rank profile; Hermitian-ness checked by TLC); replay of evp.als / evp.power_method with the Ritz-pair contract',
             text='TLC enumerates sizes, ranks, definite/indefinite, standard/generalised, real/complex and all guess rank profiles and builds the exact cores; the real solver must report the Rayleigh quotient of the returned unit-norm tensor, stay below lambda_max, never move away from its target over sweeps, keep an exact dominant eigentensor, be exact at maximal ranks, agree with the explicitly shifted operator under deflation (1 and 2 tensors) and the power iteration must converge to the pair nearest its shift.',
             note='trusted: TLC core algebra; scipy.linalg.eigh of the exact dense pencil as numeric evaluator; eigen-clauses only where the eigenvalue is separated', ref='§5 C08'),
 'C09': dict(engine='cases', tech='TLA+ scheme tables (spec/OdeSchemes.tla: each integrator as a linear recurrence with rational polynomial coefficients incl. the HOD start-up; exact squared estimator values; Markov and generic islands with exact TT cores) + controller state machine spec/Adaptive.tla model-checked by TLC (invariants + termination) + Trace_Adaptive.tla validating recorded accepted time points; replay of the integrators',
             text='TLC enumerates islands, schemes, step lists, HOD orders and computes exact estimator squares; every step of every returned trajectory must satisfy the scheme recurrence given by the spec polynomial table (ALS and MALS, both micro-solvers, normalisation 0/1/2), lists have steps+1 entries headed by the initial value, inputs keep their value; the adaptive controller is model checked for all outcomes of the trial solves and the recorded time points of real runs are validated against its Accept guard.',
             note='trusted: TLC, numpy matrix polynomials for applying the spec tables, dyadic steps with |hA| <= 1', ref='§5 C09'),
 'C10': dict(engine='cases', tech='TLA+ stage words of the splitting schemes (spec/Splitting.tla: bonds, E/O stages, Lie/Strang/Yoshida/Kahan-Li words with coefficient tables; TLC invariants: palindromes, coefficient sums, bond partition, skew-Hermitian islands); words and integer islands replayed against ode.*_splitting with a dense expm reference',
             text='TLC checks the structure of every word and enumerates chain length, local dimension, interaction rank, homogeneous/inhomogeneous, real and -iH islands; every state returned by the four integrators must equal the ordered product of stage propagators the word prescribes, the measured global order must be 1, 2, 4, >= 6, the 2-norm is preserved for skew-Hermitian generators, normalisation yields unit norm, the initial value is unchanged.',
             note='trusted: TLC, scipy.linalg.expm as numeric evaluator of the spec-defined product', ref='§5 C10'),
}
NA_REASON = 'check not built yet (work in progress)'

m = {"version": 1, "setup_cmd": "true",
     "hooks": {"guard": "SCIKIT_TT_VERIF", "enable": "no source hooks in /repo: the harness wraps the public API from outside; SCIKIT_TT_VERIF=1 is set by the checks",
               "baseline_off_cmd": "cd /repo && /venv/bin/python -m pytest -ra -q -p no:cacheprovider --timeout=900 --continue-on-collection-errors",
               "source_commits": [], "add_only": True},
     "engines": [
         {"name": "cases", "path": "spec/<Module>.tla + harness/casecheck.py + harness/props/cXX.py", "serves_properties": sorted(k for k in CHECKS if CHECKS[k]["engine"] == "cases"),
          "kind_free_text": "TLC enumerates configurations of a TLA+ reference model and emits the exact expected result per configuration; a replay function performs the real calls and compares"},
         {"name": "pool", "path": "spec/TTPool.tla + harness/poolcheck.py", "serves_properties": sorted(k for k in CHECKS if CHECKS[k]["engine"] == "pool"),
          "kind_free_text": "TLA+ object-pool state machine of the TT class; TLC generates behaviours with exact expected states (spec->code replay) and validates recorded traces (code->spec)"}],
     "checks": [], "not_applicable": [],
     "notes": "All checks: ./check <id> [--tier quick|thorough]; replay a violation with ./check <id> --replay <path>. Known findings: KNOWN_FINDINGS.json."}
for p in props:
    pid = p['id']
    if pid in CHECKS:
        c = CHECKS[pid]
        m['checks'].append({"property_id": pid, "quick_cmd": "./check %s --tier quick" % pid,
                            "thorough_cmd": "./check %s --tier thorough" % pid,
                            "evidence_file": "evidence/%s.json" % pid,
                            "replay_cmd_template": "./check %s --replay {path}" % pid,
                            "engine": c['engine'],
                            "level_claimed": {"category": MC, "text": c['text'], "design_ref": c['ref']},
                            "level_note": c['note'], "technique": c['tech']})
    else:
        m['not_applicable'].append({"property_id": pid, "reason": NA_REASON})
json.dump(m, open(os.path.join(V, 'MANIFEST.json'), 'w'), indent=1)
print('checks:', [c['property_id'] for c in m['checks']])
