#!/bin/bash
# usage: seed_all.sh [seed-id ...]   -- runs every archived seeded change (or the given ones) against its property's quick
# check in a scratch worktree (tools/seed_run_wt.sh); prints one line per seed; exit 1 if a seed is not detected.
cd /verif
ids="$@"; [ -z "$ids" ] && ids=$(ls seeded)
bad=0
for sid in $ids; do
  pid=$(python3 -c "import json;print(json.load(open('seeded/$sid/meta.json'))['property'])")
  out=$(tools/seed_run_wt.sh $sid $pid 2>&1 | grep "^seed=")
  echo "$out"
  echo "$out" | grep -q "exit=1" || bad=1
done
exit $bad
