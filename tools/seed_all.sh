#!/bin/bash
# usage: seed_all.sh [-j N] [seed-id ...]   -- runs every archived seeded change (or the given ones) against its property's
# quick check in scratch worktrees (tools/seed_run_wt.sh), N at a time (default 3); prints one line per seed;
# exit 1 if a seed is not detected.
cd /verif
jobs=3
if [ "$1" = "-j" ]; then jobs=$2; shift 2; fi
ids="$@"; [ -z "$ids" ] && ids=$(ls seeded)
out=$(mktemp)
for sid in $ids; do
  [ -f seeded/$sid/meta.json ] || continue
  pid=$(python3 -c "import json;print(json.load(open('seeded/$sid/meta.json'))['property'])")
  echo "$sid $pid"
done | xargs -P $jobs -n 2 sh -c 'VERIF_PROCS=5 tools/seed_run_wt.sh $0 $1 2>&1 | grep "^seed="' | tee $out
bad=$(grep -vc "exit=1$" $out)
rm -f $out
[ "$bad" = "0" ]
