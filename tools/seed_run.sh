#!/bin/bash
# usage: seed_run.sh <seed-id> <property> [tier]  -- applies /verif/seeded/<seed-id>/patch.diff to /repo, runs the check, reverts
sid=$1; pid=$2; tier=${3:-quick}
cd /verif
[ -z "$(git -C /repo status --porcelain -- scikit_tt)" ] || { echo "repo dirty"; exit 2; }
trap 'git -C /repo checkout -- . ' EXIT
git -C /repo apply /verif/seeded/$sid/patch.diff || { echo "patch does not apply"; exit 2; }
cp evidence/$pid.json /tmp/ev_$pid.bak 2>/dev/null
./check $pid --tier $tier > /tmp/seedrun_${sid}_$pid.log 2>&1; rc=$?
cp /tmp/ev_$pid.bak evidence/$pid.json 2>/dev/null
echo "seed=$sid check=$pid tier=$tier exit=$rc"; grep -E "^VIOLATION|^  \[" /tmp/seedrun_${sid}_$pid.log | head -6 | cut -c1-250
