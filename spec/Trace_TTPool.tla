---------------------------- MODULE Trace_TTPool ----------------------------
(***************************************************************************)
(* Code -> spec conformance for the TT object pool: validates traces that  *)
(* were RECORDED from the real implementation against the actions of       *)
(* TTPool.  One ndjson line per trace: {"tid":k,"events":[...]}.  Every    *)
(* event names the API call with its arguments and carries the OBSERVED    *)
(* abstract state of every live object after the call (dims, ranks,        *)
(* lattice-decoded integer value, observed isometry flags, a value id that *)
(* changes exactly when the projected value changes).  TLC recomputes the  *)
(* expected state with the very same actions the generator uses and names  *)
(* the first failing clause.  Many traces are validated per JVM.           *)
(***************************************************************************)
EXTENDS TTPool, IOUtils

Traces == ndJsonDeserialize(IOEnv.TRACE_FILE)
NT == Len(Traces)

VARIABLES tid,   \* which trace this behaviour validates
          l,     \* next event to consume
          vids,  \* value ids of the live objects as observed after the previous event
          bad    \* "" or the first failing clause "<event index>:<object>:<clause>"
tvars == <<pool, hist, tid, l, vids, bad>>

Events == Traces[tid].events
Ev == Events[l]
ToSet(s) == {s[k] : k \in 1..Len(s)}
Plus1(s) == {s[k] + 1 : k \in 1..Len(s)}

TraceInit ==
    /\ tid \in 1..NT
    /\ l = 1 /\ pool = <<>> /\ hist = <<>> /\ vids = <<>> /\ bad = ""
    /\ TLCSet(tid, 0)

\* objects outside the model (inconsistent by the program's own doing); a call on such an object promises nothing
DeadObj == [OpaqueObj(<<>>, <<>>, 0, 0, <<>>) EXCEPT !.st = "dead"]
Garbage(e) == \E k \in 1..Len(e.args) : e.args[k] \in 1..Len(pool) /\ pool[e.args[k]].st = "dead"

\* ---- the spec action an event claims to be
ActionOf(e) ==
    CASE e.op = "New" -> /\ pool' = Append(pool, ObjOfCores(e.cores))
                         /\ hist' = Append(hist, NewEv(e.cores))
      \* objects created outside the model (float data): only dims are known, the value is opaque
      \* (an object the program itself built inconsistently - e.g. a test preparing an error case - is outside the model: dead)
      [] e.op = "NewOpaque" -> /\ pool' = Append(pool, IF e.obs[Len(pool) + 1].ok
                                                        THEN OpaqueObj(e.rd, e.cd, e.r0, e.rN, [t \in 1..(Len(e.rd) + 1) |-> UNK])
                                                        ELSE DeadObj)
                               /\ hist' = Append(hist, [op |-> "New", new |-> <<>>, mod |-> <<>>])
      \* a solver / integrator / data-driven routine: documented to return new objects (or an argument itself,
      \* "same" > 0) and to change none of its arguments: no target, results opaque with the observed dims
      [] e.op = "Routine" ->
            Step([op |-> "Routine", name |-> e.name, args |-> e.args],
                 [k \in 1..Len(e.fresh) |-> IF Garbage(e) THEN DeadObj
                                            ELSE OpaqueObj(e.fresh[k].rd, e.fresh[k].cd, e.fresh[k].r0, e.fresh[k].rN,
                                                           [t \in 1..(Len(e.fresh[k].rd) + 1) |-> UNK])], <<>>)
      \* a call that is allowed to change the listed objects (in-place method, overwrite = TRUE, a call that raised, or
      \* code outside the API writing into an object): the targets become opaque with the observed dims, every other
      \* live object must keep its value; results are opaque with the observed dims
      [] e.op = "Havoc" ->
            Step([op |-> "Havoc", name |-> e.name, args |-> e.args],
                 [k \in 1..Len(e.fresh) |-> IF Garbage(e) THEN DeadObj
                                            ELSE OpaqueObj(e.fresh[k].rd, e.fresh[k].cd, e.fresh[k].r0, e.fresh[k].rN,
                                                           [t \in 1..(Len(e.fresh[k].rd) + 1) |-> UNK])],
                 [k \in 1..Len(e.args) |->
                    <<e.args[k], IF Garbage(e) \/ (e.name = "external" /\ ~e.obs[e.args[k]].ok) THEN DeadObj
                                 ELSE OpaqueObj(e.dims[k].rd, e.dims[k].cd, e.dims[k].r0, e.dims[k].rN,
                                                [t \in 1..(Len(e.dims[k].rd) + 1) |-> UNK])>>])
      [] e.op = "Full" -> Full(e.a)
      [] e.op = "Matricize" -> Matricize(e.a)
      [] e.op = "Elements" -> Elements(e.a)
      [] e.op = "IsOperator" -> IsOperator(e.a)
      [] e.op = "Norm2" -> Norm2(e.a)
      [] e.op = "Norm1" -> Norm1(e.a)
      [] e.op = "Residual" -> Residual(e.a, e.x, e.b)
      [] e.op = "Add" -> Add(e.a, e.b)
      [] e.op = "Sub" -> Sub(e.a, e.b)
      [] e.op = "SMul" -> SMul(e.a, e.s, e.side, e.how)
      [] e.op = "MatMul" -> MatMul(e.a, e.b, e.via)
      [] e.op = "Transpose" -> Transpose(e.a, Plus1(e.cores), e.conj, e.ow)
      [] e.op = "Conj" -> Conj(e.a, e.ow)
      [] e.op = "Copy" -> Copy(e.a)
      [] e.op = "Tensordot" -> Tensordot(e.a, e.b, e.k, e.mode, e.ow)
      [] e.op = "RankTensordot" -> RankTensordotM(e.a, e.matrix, e.mode, e.ow)
      [] e.op = "Concatenate" -> Concatenate(e.a, e.b, e.form, e.ow)
      [] e.op = "RankTranspose" -> RankTranspose(e.a, e.ow)
      [] e.op = "Diag" -> Diag(e.a, Plus1(e.list))
      [] e.op = "Squeeze" -> Squeeze(e.a)
      [] e.op = "TT2QTT" -> TT2QTT(e.a, e.rds, e.cds)
      [] e.op = "QTT2TT" -> QTT2TT(e.a, e.nums)
      [] e.op = "OrthoLeft" -> OrthoLeft(e.a, e.s, e.e, e.dflt)
      [] e.op = "OrthoRight" -> OrthoRight(e.a, e.s, e.e, e.dflt)
      [] e.op = "Ortho" -> Ortho(e.a)
      [] e.op = "OrthoTrunc" -> OrthoTrunc(e.a, e.which, e.maxrank)
      [] e.op = "Svd" -> Svd(e.a, e.index, e.ow)
      [] e.op = "Pinv" -> Pinv(e.a, e.index, e.ow)

\* ---- comparison of the observed state with the model state after the step
Last == hist'[Len(hist')]
Targets == {Last.mod[m][1] : m \in 1..Len(Last.mod)}
IsNew(i) == i > Len(pool)

ObjBad(i) ==
    LET ob == Ev.obs[i]
        m == pool'[i]
        tgt == i \in Targets \/ IsNew(i)
    IN  IF m.st = "dead" THEN ""
        ELSE IF ~ob.ok THEN "metadata"
        ELSE IF ob.rd # m.d.rd \/ ob.cd # m.d.cd THEN "dims"
        ELSE IF m.st = "exact" /\ (ob.r0 # m.d.r0 \/ ob.rN # m.d.rN) THEN "boundary_ranks"
        ELSE IF m.st = "exact" /\ (~ob.isint \/ ob.v # m.d.v) THEN (IF tgt THEN "value" ELSE "operand_changed")
        ELSE IF ~tgt /\ i <= Len(vids) /\ ob.vid # vids[i] THEN "operand_changed"
        ELSE IF \E t \in 1..Len(m.rk) : m.rk[t] < UNK /\ ob.rk[t] > m.rk[t] THEN "rank"      \* bounds >= UNK: unknown
        ELSE IF ~(m.lo \subseteq ToSet(ob.lo)) \/ ~(m.ro \subseteq ToSet(ob.ro)) THEN "isometry"
        ELSE ""

\* scalar / array results of observers
ResBad ==
    CASE Ev.op \in {"Full", "Matricize", "Elements"} ->
            IF Ev.res.isint /\ Ev.res.v = Last.res.v /\ Ev.res.shape = (IF Ev.op = "Matricize"
                    THEN (IF Prod(Last.res.cd) = 1 THEN <<Prod(Last.res.rd)>> ELSE <<Prod(Last.res.rd), Prod(Last.res.cd)>>)
                    ELSE Last.res.rd \o Last.res.cd) THEN "" ELSE "result"
      [] Ev.op = "IsOperator" -> IF Ev.res = Last.res THEN "" ELSE "result"
      [] Ev.op = "Norm1" -> IF Ev.res = Last.res THEN "" ELSE "result"
      [] Ev.op \in {"Norm2", "Residual"} -> IF Ev.ressq = Last.ressq THEN "" ELSE "result"
      [] Ev.op = "MatMul" /\ "scalar" \in DOMAIN Last ->
            IF "scalar" \in DOMAIN Ev /\ Ev.scalar = Last.scalar THEN "" ELSE "result"
      [] OTHER -> ""

FirstBad ==
    IF Len(Ev.obs) # Len(pool') THEN "object_count"
    ELSE IF ResBad # "" THEN ResBad
    ELSE LET B == {i \in 1..Len(pool') : ObjBad(i) # ""}
         IN  IF B = {} THEN ""
             ELSE LET i == CHOOSE j \in B : \A k \in B : j <= k
                  IN  ObjBad(i)

ArgsOk(e) ==
    /\ ("args" \in DOMAIN e => \A k \in 1..Len(e.args) : e.args[k] \in 1..Len(pool))
    /\ ("a" \in DOMAIN e => e.a \in 1..Len(pool))
    /\ ("b" \in DOMAIN e => e.b \in 1..Len(pool))
    /\ ("x" \in DOMAIN e => e.x \in 1..Len(pool))

TraceNext ==
    /\ bad = ""
    /\ l <= Len(Events)
    /\ ArgsOk(Ev)
    /\ ActionOf(Ev)
    /\ l' = l + 1
    /\ tid' = tid
    /\ vids' = IF "raised" \in DOMAIN Ev THEN vids ELSE [i \in 1..Len(Ev.obs) |-> Ev.obs[i].vid]
    /\ bad' = IF "raised" \in DOMAIN Ev THEN ToString(l) \o ":exception"   \* admissible call (guard held) raised
              ELSE IF FirstBad = "" THEN ""
              ELSE ToString(l) \o ":" \o FirstBad

TraceSpec == TraceInit /\ [][TraceNext]_tvars

\* longest consumed prefix and verdict per trace, kept in TLC registers
Mark ==
    /\ TLCSet(tid, IF bad # "" THEN 0 - (l - 1) ELSE l - 1)
    /\ (bad # "" => PrintT(<<"@@BAD", Traces[tid].tid, bad>>))

Post ==
    \A t \in 1..NT :
        \/ TLCGet(t) = Len(Traces[t].events)
        \/ PrintT(<<"@@REJECT", Traces[t].tid, TLCGet(t)>>)
=============================================================================
