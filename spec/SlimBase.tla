------------------------------ MODULE SlimBase ------------------------------
(***************************************************************************)
(* Master-equation generator of a nearest-neighbour interaction system as  *)
(* the sum of its elementary reaction terms (definitions only; used by     *)
(* Slim.tla for C12 and by Models.tla for the bundled chemical models).    *)
(***************************************************************************)
EXTENDS TTBase

Ind(b) == IF b THEN 1 ELSE 0

SingleTerm(i, r, Y, X) ==
    IF X[i] = r[1] THEN r[3] * (Ind(Y = [X EXCEPT ![i] = r[2]]) - Ind(Y = X)) ELSE 0
TwoTerm(i, j, r, Y, X) ==
    IF X[i] = r[1] /\ X[j] = r[3] THEN r[5] * (Ind(Y = [X EXCEPT ![i] = r[2], ![j] = r[4]]) - Ind(Y = X)) ELSE 0

\* ss: state-space vector; scr[i]: sequence of single-cell reactions of cell i;
\* tcr[b]: sequence of two-cell reactions of bond b (b = d: the closing bond d -> 1, present iff cyclic)
GenEntry(ss, scr, tcr, Y, X) ==
    LET d == Len(ss)
    IN  ISumTo([i \in 1..d |-> ISumTo([k \in 1..Len(scr[i]) |-> SingleTerm(i, scr[i][k], Y, X)], Len(scr[i]))], d)
      + ISumTo([b \in 1..Len(tcr) |->
            LET i == b
                j == IF b = d THEN 1 ELSE b + 1
            IN  ISumTo([k \in 1..Len(tcr[b]) |-> TwoTerm(i, j, tcr[b][k], Y, X)], Len(tcr[b]))], Len(tcr))

Generator(ss, scr, tcr) == Mk(ss, ss, LAMBDA Y, X : CI(GenEntry(ss, scr, tcr, Y, X)))

=============================================================================
