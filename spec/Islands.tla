------------------------------ MODULE Islands ------------------------------
(***************************************************************************)
(* Exactly solvable inputs ("islands", DESIGN.md 2.1 R1) for properties    *)
(* whose results are not rational in general.                              *)
(*                                                                         *)
(* Odeco tensors:  T = SUM_k sigma_k (x)_j q^k_j  with, in every mode j,   *)
(* pairwise orthogonal integer (or Gaussian-integer) vectors q^k_j of one  *)
(* common squared length c_j.  Every unfolding of T then has the singular  *)
(* values |sigma_k| * sqrt(PROD_j c_j) exactly, the best rank-r            *)
(* approximation of every unfolding is the sum of the r largest terms, and *)
(* TT-SVD / orthonormalisation with a rank cap r (distinct sigma) returns  *)
(* exactly that sum.  All entries are integers, so TLC computes the        *)
(* truncated tensor, its ranks and the squared error exactly.              *)
(***************************************************************************)
EXTENDS TTBase

\* integer matrices with pairwise orthogonal columns of equal squared length (c = 25, 9, 25, 2)
QR2 == <<<<C1, C1>>, <<C1, CNeg(C1)>>>>                                   \* Hadamard, c = 2
QA2 == <<<<CI(3), CI(4)>>, <<CI(4), CI(-3)>>>>                            \* c = 25
QC2 == <<<<CI(3), <<0, 4>>>>, <<<<0, 4>>, CI(3)>>>>                       \* complex, c = 25
QA3 == <<<<CI(1), CI(2), CI(2)>>, <<CI(2), CI(1), CI(-2)>>, <<CI(2), CI(-2), CI(1)>>>>   \* c = 9
QP3 == <<<<CZ, C1, CZ>>, <<CZ, CZ, CNeg(C1)>>, <<C1, CZ, CZ>>>>           \* signed permutation, c = 1
QSq(Q) == CAbs2(Q[1][1]) + (IF Len(Q) > 1 THEN CAbs2(Q[2][1]) ELSE 0) + (IF Len(Q) > 2 THEN CAbs2(Q[3][1]) ELSE 0)

\* an island is [sig: sequence of K distinct positive integers, Q: sequence of d matrices (n_j x n_j, n_j >= K)]
IslDims(isl) == [j \in 1..Len(isl.Q) |-> Len(isl.Q[j])]
IslScaleSq(isl) == Prod([j \in 1..Len(isl.Q) |-> QSq(isl.Q[j])])

RECURSIVE CProdTo(_, _)
CProdTo(f, n) == IF n = 0 THEN C1 ELSE CMul(CProdTo(f, n - 1), f[n])

\* dense value of the sum of the terms in the index set KS (vector-type: column dims 1)
IslDense(isl, KS) ==
    LET d == Len(isl.Q)
        K == Len(isl.sig)
    IN  Mk(IslDims(isl), [j \in 1..d |-> 1], LAMBDA I, J :
            CSumTo([k \in 1..K |->
                IF k \in KS THEN CMul(CI(isl.sig[k]), CProdTo([j \in 1..d |-> isl.Q[j][I[j] + 1][k]], d)) ELSE CZ], K))

\* unimodular gauges (integer inverse) that make the TT cores non-orthonormal
Gauge(K) == [a \in 1..K |-> [b \in 1..K |-> IF b = a \/ b = a + 1 THEN C1 ELSE CZ]]                  \* upper bidiagonal ones
GaugeInv(K) == [a \in 1..K |-> [b \in 1..K |-> IF b < a THEN CZ ELSE IF (b - a) % 2 = 0 THEN C1 ELSE CNeg(C1)]]

\* TT cores of the island: the CP-to-TT embedding  core_j[k,i,1,k'] = delta(k,k') Q_j[i][k] (sigma_k in the first core),
\* conjugated by the gauges:  core_j <- GaugeInv * core_j * Gauge  on the inner bonds.
IslCores(isl, gauged) ==
    LET d == Len(isl.Q)
        K == Len(isl.sig)
        G == IF gauged THEN Gauge(K) ELSE [a \in 1..K |-> [b \in 1..K |-> IF a = b THEN C1 ELSE CZ]]
        Gi == IF gauged THEN GaugeInv(K) ELSE G
        base(j, k, i) == CMul(IF j = 1 THEN CI(isl.sig[k]) ELSE C1, isl.Q[j][i][k])
    IN  [j \in 1..d |->
          LET r0 == IF j = 1 THEN 1 ELSE K
              r1 == IF j = d THEN 1 ELSE K
          IN  [a \in 1..r0 |-> [i \in 1..Len(isl.Q[j]) |-> <<[b \in 1..r1 |->
                \* sum_k Gi[a][k] * base(j,k,i) * G[k][b]   (boundary sides: plain sums over k)
                CSumTo([k \in 1..K |->
                    CMul(CMul(IF j = 1 THEN C1 ELSE Gi[a][k], base(j, k, i)), IF j = d THEN C1 ELSE G[k][b])], K)]>>]]]

\* indices of the r largest sigma (sigma distinct)
TopIdx(sig, r) == {k \in 1..Len(sig) : Cardinality({m \in 1..Len(sig) : sig[m] > sig[k]}) < r}
\* indices kept by the relative threshold p/q:  sigma_k / sigma_max > p/q   (no ties by construction)
ThrIdx(sig, p, q) ==
    LET mx == IMaxTo(sig, Len(sig)) IN {k \in 1..Len(sig) : sig[k] * q > p * mx}
ThrTie(sig, p, q) ==
    LET mx == IMaxTo(sig, Len(sig)) IN \E k \in 1..Len(sig) : sig[k] * q = p * mx

\* a rank cap r splits a group of equal singular values (then more than r indices are "top": which of the tied terms
\* survive - and what the later bonds see - depends on the SVD's arbitrary choice inside the tied subspace)
CapSplitsTie(sig, r) == Cardinality(TopIdx(sig, r)) > r

SumSq(sig, KS) == ISumTo([k \in 1..Len(sig) |-> IF k \in KS THEN sig[k] * sig[k] ELSE 0], Len(sig))

\* model-level sanity of the construction (checked by TLC in IslandTheorems):
\* the gauged cores denote the same tensor as the plain sum of terms
IslCoresOK(isl) == FullOf(IslCores(isl, TRUE)) = IslDense(isl, 1..Len(isl.sig))
                /\ FullOf(IslCores(isl, FALSE)) = IslDense(isl, 1..Len(isl.sig))
\* columns of every Q are pairwise orthogonal with the same squared length
QOK(Q) == \A a \in 1..Len(Q), b \in 1..Len(Q) :
            CSumTo([i \in 1..Len(Q) |-> CMul(CConj(Q[i][a]), Q[i][b])], Len(Q)) = (IF a = b THEN CI(QSq(Q)) ELSE CZ)
=============================================================================
