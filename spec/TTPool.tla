------------------------------- MODULE TTPool -------------------------------
(***************************************************************************)
(* The object-pool machine of scikit_tt's TT class (role R2 of DESIGN.md). *)
(*                                                                         *)
(* State: a pool of live tensor trains, each abstracted to                 *)
(*    d   the dense tensor it denotes (exact Gaussian integers) + dims     *)
(*    rk  upper bounds for its ranks                                       *)
(*    lo  the cores known to be left-orthonormal (0-based indices)         *)
(*    ro  the cores known to be right-orthonormal                          *)
(* and the history of API calls made so far.  Every public operation of    *)
(* the class is one action.  The reference semantics is VALUE semantics:   *)
(* an action creates fresh objects for its results and changes only its    *)
(* documented targets (self for in-place / overwrite variants).            *)
(*                                                                         *)
(* The same actions are used (a) by TLC to enumerate histories, whose      *)
(* events (with the exact expected post-state) are replayed into the real  *)
(* implementation, and (b) by Trace_TTPool to validate traces recorded     *)
(* from the real implementation.                                           *)
(***************************************************************************)
EXTENDS Islands, Json

CONSTANTS
    Scenarios,      \* set of scenario names enabled in Init
    OpsAt,          \* sequence (length MaxDepth) of sets of operation names: OpsAt[k] is enabled for the k-th call
    Lean,           \* TRUE: reduced parameter ranges (one scalar, full transposes only, ...)
    MaxD,           \* maximal order of generated operands
    DimsR, DimsC,   \* sets of row / column mode sizes
    RanksS,         \* set of inner ranks
    KindPairs,      \* set of <<kindA, kindB>> fills ("real","complex","pos","def","cdef")
    Seeds,          \* set of fill seeds
    MaxDepth,       \* number of actions per history
    NShards, Shard, \* this TLC process enumerates the configurations of one shard
    Vias,           \* subset of {"matmul","dot"}: which spelling of the operator product is used
    MaxDB,          \* maximal order of the second operand in scenario "td"
    OWs,            \* subset of BOOLEAN: overwrite variants enabled
    QL,             \* maximal length of a mode factorisation in TT2QTT
    IslLevel,       \* 0: no islands; 1, 2: size of the island catalogue of scenario "odeco"
    EmitAll         \* TRUE: emit every history prefix; FALSE: only complete histories

VARIABLES pool, hist
vars == <<pool, hist>>

Orders == 1..MaxD
BOOL3 == {FALSE, TRUE}
Shapes == UNION {ShapesD(d, DimsR, DimsC, RanksS) : d \in Orders}

\* ------------------------------------------------------------- pool objects
\* st: "exact"  - d.v is the exact dense value
\*     "opaque" - the value is not predicted by the model (after an effective truncation, or a
\*                factor of a decomposition); only dims/metadata are
\*     "dead"   - consumed by an overwrite=True call whose effect on self is undocumented
UNK == 999      \* rank bound "unknown" (larger than any rank in the model)
NoIsl == [sig |-> <<>>, Q |-> <<>>]
Obj(dn, rk) == [d |-> dn, rk |-> rk, lo |-> {}, ro |-> {}, st |-> "exact", isl |-> NoIsl, gauged |-> FALSE]
OpaqueObj(rd, cd, r0, rN, rk) == [d |-> [rd |-> rd, cd |-> cd, r0 |-> r0, rN |-> rN, v |-> <<>>],
                                  rk |-> rk, lo |-> {}, ro |-> {}, st |-> "opaque", isl |-> NoIsl, gauged |-> FALSE]
HasIsl(o) == o.isl # NoIsl
Exact(o) == o.st = "exact"
Alive(o) == o.st # "dead"
ObjOfCores(cores) == Obj(FullOf(cores), Ranks(cores))
Order(o) == Len(o.d.rd)
Closed(o) == o.d.r0 = 1 /\ o.d.rN = 1 /\ Exact(o)
Ids == 1..Len(pool)

\* an event is a record; "new" lists the objects the call returned (appended to
\* the pool in this order), "mod" the ids the call was allowed to change
\* together with their expected new abstract state
Step(ev, newObjs, mods) ==
    /\ pool' = [i \in 1..(Len(pool) + Len(newObjs)) |->
                  IF i <= Len(pool)
                  THEN (IF \E m \in 1..Len(mods) : mods[m][1] = i
                        THEN mods[CHOOSE m \in 1..Len(mods) : mods[m][1] = i][2]
                        ELSE pool[i])
                  ELSE newObjs[i - Len(pool)]]
    /\ hist' = Append(hist, ev @@ [new |-> newObjs, mod |-> mods])

Depth == Len(SelectSeq(hist, LAMBDA e : e.op # "New"))
CanStep == Depth < MaxDepth
Ops == IF Depth < Len(OpsAt) THEN OpsAt[Depth + 1] ELSE {}

\* ------------------------------------------------------------ configurations
ShardOf(sa, sb, kp, seed) ==
    (ISum(sa.rd) * 3 + ISum(sa.cd) * 5 + ISum(sa.rk) * 7 + ISum(sb.rd) * 11 + ISum(sb.cd) * 13 +
     ISum(sb.rk) * 17 + Len(kp[1]) + Len(kp[2]) * 3 + seed * 19 + sa.rd[1] + 2 * sb.cd[Len(sb.cd)]) % NShards

NewEv(cores) == [op |-> "New", cores |-> cores, new |-> <<ObjOfCores(cores)>>, mod |-> <<>>]

InitWith(coreLists) ==
    /\ pool = [i \in 1..Len(coreLists) |-> ObjOfCores(coreLists[i])]
    /\ hist = [i \in 1..Len(coreLists) |-> NewEv(coreLists[i])]

\* scenario "same": two operands with equal dims and independent ranks/fills
InitSame ==
    \E sa \in Shapes, kp \in KindPairs, seed \in Seeds :
      \E sb \in {s \in Shapes : s.rd = sa.rd /\ s.cd = sa.cd} :
        /\ ShardOf(sa, sb, kp, seed) = Shard
        /\ InitWith(<<FillCores(kp[1], seed, sa), FillCores(kp[2], seed + 1, sb)>>)

\* scenario "chain": B.rd = A.cd (operator product)
InitChain ==
    \E sa \in Shapes, kp \in KindPairs, seed \in Seeds :
      \E sb \in {s \in Shapes : s.rd = sa.cd} :
        /\ ShardOf(sa, sb, kp, seed) = Shard
        /\ InitWith(<<FillCores(kp[1], seed, sa), FillCores(kp[2], seed + 1, sb)>>)

\* scenario "pair": two operands of arbitrary, independent shapes
InitPair ==
    \E sa \in Shapes, sb \in Shapes, kp \in KindPairs, seed \in Seeds :
        /\ ShardOf(sa, sb, kp, seed) = Shard
        /\ InitWith(<<FillCores(kp[1], seed, sa), FillCores(kp[2], seed + 1, sb)>>)

\* scenario "openpair": x with open right boundary, y with matching open left boundary
InitOpenPair ==
    \E sa \in Shapes, sb \in Shapes, kp \in KindPairs, seed \in Seeds, r \in RanksS, r0 \in RanksS :
        LET so == [sa EXCEPT !.rk = [t \in 1..Len(sa.rk) |->
                       IF t = 1 THEN r0 ELSE IF t = Len(sa.rk) THEN r ELSE sa.rk[t]]]
            sp == [sb EXCEPT !.rk = [t \in 1..Len(sb.rk) |-> IF t = 1 THEN r ELSE sb.rk[t]]]
        IN  /\ ShardOf(so, sp, kp, seed) = Shard
            /\ InitWith(<<FillCores(kp[1], seed, so), FillCores(kp[2], seed + 1, sp)>>)

\* scenario "single": one operand
InitSingle ==
    \E sa \in Shapes, kp \in KindPairs, seed \in Seeds :
        /\ ShardOf(sa, sa, kp, seed) = Shard
        /\ InitWith(<<FillCores(kp[1], seed, sa)>>)

\* scenario "lin": operator A (square modes), vectors x, b
InitLin ==
    \E sa \in {s \in Shapes : s.rd = s.cd}, kp \in KindPairs, seed \in Seeds :
      \E sx \in {s \in Shapes : s.rd = sa.rd /\ AllOnes(s.cd)},
         sb \in {s \in Shapes : s.rd = sa.rd /\ AllOnes(s.cd)} :
        /\ ShardOf(sa, sx, kp, seed + ISum(sb.rk)) = Shard
        /\ InitWith(<<FillCores(kp[1], seed, sa), FillCores(kp[2], seed + 1, sx),
                      FillCores(kp[1], seed + 2, sb)>>)

\* scenario "td": operands for mode contraction.  B is derived from A: its
\* contracted modes copy A's, the e extra modes are free.
TDShapeB(sa, k, mode, ext) ==
    \* ext: a shape of order e >= 0 given as [rd, cd, rk] or the empty record
    LET p == Len(sa.rd)
        crd == IF TDLastS(mode) THEN SubSeq(sa.rd, p - k + 1, p) ELSE SubSeq(sa.rd, 1, k)
        ccd == IF TDLastS(mode) THEN SubSeq(sa.cd, p - k + 1, p) ELSE SubSeq(sa.cd, 1, k)
    IN  IF TDFirstO(mode) THEN [rd |-> crd \o ext.rd, cd |-> ccd \o ext.cd]
                          ELSE [rd |-> ext.rd \o crd, cd |-> ext.cd \o ccd]

TDModes == {"last-first", "last-last", "first-last", "first-first"}
ShardA(sa) == ISum(sa.rd) * 3 + ISum(sa.cd) * 5 + ISum(sa.rk) * 7 + sa.rd[1] + Len(sa.rd) * 2
ModeIx(mode) == CASE mode = "last-first" -> 0 [] mode = "last-last" -> 1 [] mode = "first-last" -> 2 [] OTHER -> 3
InitTD ==
    \E t \in {u \in Shapes \X TDModes \X (1..MaxD) :
                 u[3] <= Len(u[1].rd) /\ (ShardA(u[1]) + ModeIx(u[2]) * 5 + u[3] * 3) % NShards = Shard} :
      LET sa == t[1]
          mode == t[2]
          k == t[3]
      IN
      \E kp \in KindPairs, seed \in Seeds, e \in 0..(MaxDB - 1) :
        \E ext \in (IF e = 0 THEN {[rd |-> <<>>, cd |-> <<>>]}
                    ELSE {[rd |-> s.rd, cd |-> s.cd] : s \in ShapesD(e, DimsR, DimsC, {1})}) :
          LET dims == TDShapeB(sa, k, mode, ext)
              q == Len(dims.rd)
          IN  /\ q <= MaxDB
              /\ \E ri \in [1..(q - 1) -> RanksS] :
                    LET sb == [rd |-> dims.rd, cd |-> dims.cd,
                               rk |-> [t2 \in 1..(q + 1) |-> IF t2 = 1 \/ t2 = q + 1 THEN 1 ELSE ri[t2 - 1]]]
                    IN  InitWith(<<FillCores(kp[1], seed, sa), FillCores(kp[2], seed + 1, sb)>>)

\* scenario "open": one operand with boundary ranks in RanksS (for rank_tensordot / concatenate)
InitOpen ==
    \E sa \in Shapes, kp \in KindPairs, seed \in Seeds, r0 \in RanksS, rN \in RanksS :
        LET so == [sa EXCEPT !.rk = [t \in 1..Len(sa.rk) |->
                       IF t = 1 THEN r0 ELSE IF t = Len(sa.rk) THEN rN ELSE sa.rk[t]]]
        IN  /\ ShardOf(sa, so, kp, seed) = Shard
            /\ InitWith(<<FillCores(kp[1], seed, so)>>)

\* scenario "odeco": one exactly solvable operand (spec/Islands.tla), gauged (non-orthonormal) cores
IslCatalog ==
    {[sig |-> <<5, 3>>, Q |-> <<QA2, QC2, QA3>>],
     [sig |-> <<8, 4, 2>>, Q |-> <<QA3, QP3, QA3>>],
     [sig |-> <<2, 7>>, Q |-> <<QA2, QA2>>],
     [sig |-> <<3, 6, 5>>, Q |-> <<QA3, QA3>>]}
    \cup (IF IslLevel >= 2
          THEN {[sig |-> <<1, 4, 2>>, Q |-> <<QP3, QA3, QA3, QP3>>],
                [sig |-> <<9, 2>>, Q |-> <<QC2, QA2, QC2, QA2>>],
                [sig |-> <<4, 4, 1>>, Q |-> <<QA3, QA3, QA3>>],          \* tie among the largest (errors/ranks only)
                [sig |-> <<6, 1>>, Q |-> <<QA3, QA2, QA3>>],
                [sig |-> <<7>>, Q |-> <<QA2, QA3>>]}
          ELSE {})
DistinctSig(sig) == \A a \in 1..Len(sig), b \in 1..Len(sig) : a # b => sig[a] # sig[b]
InitOdeco ==
    \E isl \in IslCatalog, g \in BOOL3 :
        /\ Shard = (isl.sig[1] + Len(isl.Q) + (IF g THEN 1 ELSE 0)) % NShards
        /\ LET cores == IslCores(isl, g)
           IN  /\ pool = <<[ObjOfCores(cores) EXCEPT !.isl = isl, !.gauged = g]>>
               /\ hist = <<[NewEv(cores) EXCEPT !.new = <<[ObjOfCores(cores) EXCEPT !.isl = isl, !.gauged = g]>>]>>

\* scenario "ctor": empty pool; constructors only
InitCtor == Shard = 0 /\ pool = <<>> /\ hist = <<>>

Init ==
    \/ "same" \in Scenarios /\ InitSame
    \/ "chain" \in Scenarios /\ InitChain
    \/ "single" \in Scenarios /\ InitSingle
    \/ "pair" \in Scenarios /\ InitPair
    \/ "openpair" \in Scenarios /\ InitOpenPair
    \/ "lin" \in Scenarios /\ InitLin
    \/ "td" \in Scenarios /\ InitTD
    \/ "open" \in Scenarios /\ InitOpen
    \/ "ctor" \in Scenarios /\ InitCtor
    \/ "odeco" \in Scenarios /\ InitOdeco

\* ---------------------------------------------------------------- observers
\* (no state change other than the history; the pool clause "operands
\*  unchanged" is checked by the replay for every live object after every step)
Full(a) ==
    /\ "Full" \in Ops /\ Closed(pool[a])
    /\ Step([op |-> "Full", a |-> a, res |-> pool[a].d], <<>>, <<>>)

Matricize(a) ==
    /\ "Matricize" \in Ops /\ Closed(pool[a])
    /\ Step([op |-> "Matricize", a |-> a, res |-> pool[a].d], <<>>, <<>>)

\* every single element, in one event
Elements(a) ==
    /\ "Elements" \in Ops /\ Closed(pool[a])
    /\ Step([op |-> "Elements", a |-> a, res |-> pool[a].d], <<>>, <<>>)

IsOperator(a) ==
    /\ "IsOperator" \in Ops /\ Alive(pool[a])
    /\ Step([op |-> "IsOperator", a |-> a, res |-> DIsOperator(pool[a].d)], <<>>, <<>>)

Norm2(a) ==
    /\ "Norm2" \in Ops /\ Closed(pool[a])
    /\ Step([op |-> "Norm2", a |-> a, ressq |-> DNorm2Sq(pool[a].d)], <<>>, <<>>)

IsRealD(dn) == \A n \in 1..Len(dn.v) : dn.v[n][2] = 0
NonNeg(dn) == \A n \in 1..Len(dn.v) : dn.v[n][1] >= 0 /\ dn.v[n][2] = 0
Norm1(a) ==
    /\ "Norm1" \in Ops /\ Closed(pool[a]) /\ NonNeg(pool[a].d)
    /\ Step([op |-> "Norm1", a |-> a, res |-> DNorm1(pool[a].d)], <<>>, <<>>)

IsVec(o) == AllOnes(o.d.cd)
Residual(a, x, b) ==
    /\ "Residual" \in Ops
    /\ Closed(pool[a]) /\ Closed(pool[x]) /\ Closed(pool[b])
    /\ IsVec(pool[x]) /\ IsVec(pool[b])
    /\ pool[a].d.cd = pool[x].d.rd /\ pool[a].d.rd = pool[b].d.rd
    /\ Step([op |-> "Residual", a |-> a, x |-> x, b |-> b,
             ressq |-> DNorm2Sq(DSub(DMatMul(pool[a].d, pool[x].d), pool[b].d))], <<>>, <<>>)

\* ----------------------------------------------------------------- algebra
SameDims(x, y) == x.d.rd = y.d.rd /\ x.d.cd = y.d.cd
SumRanks(x, y) == [t \in 1..Len(x.rk) |-> IF t = 1 \/ t = Len(x.rk) THEN 1 ELSE x.rk[t] + y.rk[t]]
MulRanks(x, y) == [t \in 1..Len(x.rk) |-> x.rk[t] * y.rk[t]]

Add(a, b) ==
    /\ "Add" \in Ops /\ Closed(pool[a]) /\ Closed(pool[b]) /\ SameDims(pool[a], pool[b])
    /\ Step([op |-> "Add", a |-> a, b |-> b],
            <<Obj(DAdd(pool[a].d, pool[b].d), SumRanks(pool[a], pool[b]))>>, <<>>)

Sub(a, b) ==
    /\ "Sub" \in Ops /\ Closed(pool[a]) /\ Closed(pool[b]) /\ SameDims(pool[a], pool[b])
    /\ Step([op |-> "Sub", a |-> a, b |-> b],
            <<Obj(DSub(pool[a].d, pool[b].d), SumRanks(pool[a], pool[b]))>>, <<>>)

\* scalar multiple; side in {"left","right"}; how: python type used for the scalar
\* 1 is the neutral element: a product with it is still a new object (a shortcut that hands back the operand aliases it)
Scalars == IF Lean THEN {<<-3, 0>>, <<1, 0>>} ELSE {<<-3, 0>>, <<0, 0>>, <<1, 2>>, <<1, 0>>}
SMul(a, s, side, how) ==
    /\ "SMul" \in Ops /\ Exact(pool[a])
    /\ how \in (IF s[2] # 0 THEN {"complex"} ELSE IF Lean THEN {"float"} ELSE {"int", "float", "complex"})
    /\ Step([op |-> "SMul", a |-> a, s |-> s, side |-> side, how |-> how],
            <<Obj(DScale(s, pool[a].d), pool[a].rk)>>, <<>>)

ScalarShaped(x, y) == AllOnes(x.d.rd) /\ AllOnes(y.d.cd)
MatMul(a, b, via) ==
    /\ "MatMul" \in Ops /\ Closed(pool[a]) /\ Closed(pool[b])
    /\ pool[a].d.cd = pool[b].d.rd
    /\ IF ScalarShaped(pool[a], pool[b])
       THEN Step([op |-> "MatMul", a |-> a, b |-> b, via |-> via,
                  scalar |-> DMatMul(pool[a].d, pool[b].d).v[1]], <<>>, <<>>)
       ELSE Step([op |-> "MatMul", a |-> a, b |-> b, via |-> via],
                 <<Obj(DMatMul(pool[a].d, pool[b].d), MulRanks(pool[a], pool[b]))>>, <<>>)

\* transpose of the cores in S (0-based in the event), optionally conjugated,
\* as a new object or in place (overwrite)
Transpose(a, S, conj, ow) ==
    /\ "Transpose" \in Ops
    /\ Closed(pool[a])
    \* conjugating only some cores of a complex train is representation dependent (not a
    \* function of the dense value, which may even be real while the cores are complex): the dense
    \* contract covers the full conjugate transpose and partial transposes without conjugation
    /\ (conj => S = 1..Order(pool[a]))
    /\ (Lean => S = 1..Order(pool[a]))
    /\ LET r == Obj(DTranspose(pool[a].d, S, conj), pool[a].rk)
           ev == [op |-> "Transpose", a |-> a, cores |-> {k - 1 : k \in S},
                  all |-> (S = 1..Order(pool[a])), conj |-> conj, ow |-> ow]
       IN  IF ow THEN Step(ev, <<>>, <<<<a, r>>>>) ELSE Step(ev, <<r>>, <<>>)

Conj(a, ow) ==
    /\ "Conj" \in Ops /\ Exact(pool[a])
    /\ LET r == Obj(DConj(pool[a].d), pool[a].rk)
           ev == [op |-> "Conj", a |-> a, ow |-> ow]
       IN  IF ow THEN Step(ev, <<>>, <<<<a, r>>>>) ELSE Step(ev, <<r>>, <<>>)

Copy(a) ==
    /\ "Copy" \in Ops /\ Exact(pool[a])
    /\ Step([op |-> "Copy", a |-> a], <<Obj(pool[a].d, pool[a].rk)>>, <<>>)

\* ------------------------------------------------------------- constructors
CtorDims == UNION {[1..d -> DimsR] : d \in Orders}
InnerRanks(d, r) == [t \in 1..(d + 1) |-> IF t = 1 \/ t = d + 1 THEN 1 ELSE r]
Zeros(rd, cd, r) ==
    /\ "Zeros" \in Ops /\ Len(rd) = Len(cd)
    /\ Step([op |-> "Zeros", rd |-> rd, cd |-> cd, ranks |-> InnerRanks(Len(rd), r)],
            <<Obj(DZeros(rd, cd), InnerRanks(Len(rd), r))>>, <<>>)
Ones(rd, cd, r) ==
    /\ "Ones" \in Ops /\ Len(rd) = Len(cd)
    /\ Step([op |-> "Ones", rd |-> rd, cd |-> cd, ranks |-> InnerRanks(Len(rd), r)],
            <<Obj(DOnes(rd, cd, InnerRanks(Len(rd), r)), InnerRanks(Len(rd), r))>>, <<>>)
Eye(dims) ==
    /\ "Eye" \in Ops
    /\ Step([op |-> "Eye", dims |-> dims], <<Obj(DEye(dims), InnerRanks(Len(dims), 1))>>, <<>>)
Unit(dims, inds) ==
    /\ "Unit" \in Ops
    /\ Step([op |-> "Unit", dims |-> dims, inds |-> inds],
            <<Obj(DUnit(dims, inds), InnerRanks(Len(dims), 1))>>, <<>>)
\* uniform(dims, ranks, norm): all entries equal and positive, 2-norm = norm
\* (the entry is norm/sqrt(N), irrational in general: stated through its square)
Uniform(dims, r, nrm) ==
    /\ "Uniform" \in Ops
    /\ Step([op |-> "Uniform", dims |-> dims, ranks |-> InnerRanks(Len(dims), r), norm |-> nrm,
             normsq |-> nrm * nrm, count |-> Prod(dims)], <<>>, <<>>)

\* ---------------------------------------------- contraction and structure
Tensordot(a, b, k, mode, ow) ==
    /\ "Tensordot" \in Ops /\ Closed(pool[a]) /\ Closed(pool[b])
    /\ k >= 1 /\ k <= Order(pool[a]) /\ k <= Order(pool[b])
    /\ (Lean => a < b)
    /\ LET S == pool[a].d
           O == pool[b].d
           p == Len(S.rd)
           q == Len(O.rd)
           sC == IF TDLastS(mode) THEN Range(p - k + 1, p) ELSE Range(1, k)
           oC == IF TDFirstO(mode) THEN Range(1, k) ELSE Range(q - k + 1, q)
       IN  /\ Pick(S.rd, sC) = Pick(O.rd, oC) /\ Pick(S.cd, sC) = Pick(O.cd, oC)
           /\ LET dn == DTensordot(S, O, k, mode)
                  r == Obj(dn, [t \in 1..(Len(dn.rd) + 1) |-> IF t = 1 \/ t = Len(dn.rd) + 1 THEN 1 ELSE UNK])
                  ev == [op |-> "Tensordot", a |-> a, b |-> b, k |-> k, mode |-> mode, ow |-> ow]
              IN  IF ow THEN a # b /\ Step(ev, <<>>, <<<<a, r>>>>) ELSE Step(ev, <<r>>, <<>>)

\* contraction of a boundary rank with an integer matrix
MatFill(seed, m, n) == [i \in 1..m |-> [j \in 1..n |-> <<(Hash(seed, 1, i, j, i + j, 2) - 3), 0>>]]
RankTensordotM(a, M, mode, ow) ==
    /\ "RankTensordot" \in Ops /\ Exact(pool[a])
    /\ (IF mode = "last" THEN Len(M) = pool[a].d.rN ELSE Len(M[1]) = pool[a].d.r0)
    /\ LET x == pool[a].d
           n == IF mode = "last" THEN Len(M[1]) ELSE Len(M)
           dn == IF mode = "last"
                 THEN MkG(x.rd, x.cd, x.r0, n, LAMBDA p, I, J, q :
                        CSumTo([t \in 1..x.rN |-> CMul(AtG(x, p, I, J, t - 1), M[t][q + 1])], x.rN))
                 ELSE MkG(x.rd, x.cd, n, x.rN, LAMBDA p, I, J, q :
                        CSumTo([t \in 1..x.r0 |-> CMul(M[p + 1][t], AtG(x, t - 1, I, J, q))], x.r0))
           rk2 == [t \in 1..Len(pool[a].rk) |->
                     IF t = 1 /\ mode = "first" THEN n
                     ELSE IF t = Len(pool[a].rk) /\ mode = "last" THEN n ELSE pool[a].rk[t]]
           ev == [op |-> "RankTensordot", a |-> a, matrix |-> M, mode |-> mode, ow |-> ow]
       IN  IF ow THEN Step(ev, <<>>, <<<<a, Obj(dn, rk2)>>>>) ELSE Step(ev, <<Obj(dn, rk2)>>, <<>>)
RankTensordot(a, n, mode, seed, ow) ==
    RankTensordotM(a, IF mode = "last" THEN MatFill(seed, pool[a].d.rN, n) ELSE MatFill(seed, n, pool[a].d.r0), mode, ow)

\* concatenation; form "tt": other is a TT, "list": other's list of cores
DConcatG(x, y) ==
    LET dx == Len(x.rd)
        dy == Len(y.rd)
    IN  MkG(x.rd \o y.rd, x.cd \o y.cd, x.r0, y.rN, LAMBDA p, I, J, q :
            CSumTo([t \in 1..x.rN |->
                CMul(AtG(x, p, SubSeq(I, 1, dx), SubSeq(J, 1, dx), t - 1),
                     AtG(y, t - 1, SubSeq(I, dx + 1, dx + dy), SubSeq(J, dx + 1, dx + dy), q))], x.rN))
Concatenate(a, b, form, ow) ==
    /\ "Concatenate" \in Ops /\ Exact(pool[a]) /\ Exact(pool[b])
    /\ pool[a].d.rN = pool[b].d.r0
    /\ Order(pool[a]) + Order(pool[b]) <= 2 * MaxD
    /\ LET r == Obj(DConcatG(pool[a].d, pool[b].d), pool[a].rk \o Tail(pool[b].rk))
           ev == [op |-> "Concatenate", a |-> a, b |-> b, form |-> form, ow |-> ow]
       IN  IF ow THEN a # b /\ Step(ev, <<>>, <<<<a, r>>>>) ELSE Step(ev, <<r>>, <<>>)

RankTranspose(a, ow) ==
    /\ "RankTranspose" \in Ops /\ Closed(pool[a])
    /\ LET r == Obj(DRankTranspose(pool[a].d), Rev(pool[a].rk))
           ev == [op |-> "RankTranspose", a |-> a, ow |-> ow]
       IN  IF ow THEN Step(ev, <<>>, <<<<a, r>>>>) ELSE Step(ev, <<r>>, <<>>)

Diag(a, S) ==
    /\ "Diag" \in Ops /\ Closed(pool[a])
    /\ S # {} /\ \A k \in S : pool[a].d.cd[k] = 1
    /\ (Lean => S = {k \in 1..Order(pool[a]) : pool[a].d.cd[k] = 1})
    /\ Step([op |-> "Diag", a |-> a, list |-> {k - 1 : k \in S}],
            <<Obj(DDiag(pool[a].d, S), pool[a].rk)>>, <<>>)

Squeeze(a) ==
    /\ "Squeeze" \in Ops /\ Closed(pool[a])
    /\ \E k \in 1..Order(pool[a]) : ~(pool[a].d.rd[k] = 1 /\ pool[a].d.cd[k] = 1)
    /\ \E k \in 1..Order(pool[a]) : pool[a].d.rd[k] = 1 /\ pool[a].d.cd[k] = 1
    /\ LET dn == DSqueeze(pool[a].d)
       IN  Step([op |-> "Squeeze", a |-> a],
                <<Obj(dn, [t \in 1..(Len(dn.rd) + 1) |-> IF t = 1 \/ t = Len(dn.rd) + 1 THEN 1 ELSE UNK])>>, <<>>)


\* TT <-> QTT: split every mode i into the factors rds[i] / cds[i] (C order), merge back
Facts(n, L) == {f \in [1..L -> 1..n] : Prod(f) = n}
ModeFacts(m, n) == UNION {Facts(m, l) \X Facts(n, l) : l \in 1..QL}
TT2QTT(a, rds, cds) ==
    /\ "TT2QTT" \in Ops /\ Closed(pool[a])
    /\ LET dn == DSplit(pool[a].d, rds, cds)
       IN  Step([op |-> "TT2QTT", a |-> a, rds |-> rds, cds |-> cds],
                <<Obj(dn, [t \in 1..(Len(dn.rd) + 1) |-> IF t = 1 \/ t = Len(dn.rd) + 1 THEN 1 ELSE UNK])>>, <<>>)

\* all compositions of n into positive parts
RECURSIVE Compositions(_)
Compositions(n) == IF n = 0 THEN {<<>>} ELSE UNION {{<<k>> \o c : c \in Compositions(n - k)} : k \in 1..n}
QTT2TT(a, nums) ==
    /\ "QTT2TT" \in Ops /\ Closed(pool[a])
    /\ ISum(nums) = Order(pool[a])
    /\ LET dn == DMerge(pool[a].d, nums)
       IN  Step([op |-> "QTT2TT", a |-> a, nums |-> nums],
                <<Obj(dn, [t \in 1..(Len(dn.rd) + 1) |-> IF t = 1 \/ t = Len(dn.rd) + 1 THEN 1 ELSE UNK])>>, <<>>)

\* block-core assembly from an r1 x r2 list of m x n matrices (or the placeholder 0)
\* present: set of <<p, q>> positions holding a matrix; cplx: blocks are complex
BlockFill(seed, p, q, m, n, cplx) ==
    [i \in 1..m |-> [j \in 1..n |->
        <<Hash(seed, p, q, i, j, 1) - 3, IF cplx THEN (Hash(seed + 1, q, p, j, i, 2) % 5) - 2 ELSE 0>>]]
BuildCore(r1, r2, m, n, present, cplx, flag, form) ==
    /\ "BuildCore" \in Ops
    /\ present # {}
    \* cplx: "no" | "all" | "altA" / "altB" (complex and real blocks mixed: blocks with p + q even / odd are complex).
    \* Complex blocks make the core complex also when iscomplex is left at its default False (dtype promotion).
    /\ (form = "vector" => r2 = 1)   \* input form (2): a flat list of r1 blocks
    /\ LET isc(p, q) == CASE cplx = "no" -> FALSE [] cplx = "all" -> TRUE
                           [] cplx = "altA" -> (p + q) % 2 = 0 [] OTHER -> (p + q) % 2 = 1
           blk(p, q) == BlockFill(Len(hist) + 1, p, q, m, n, isc(p, q))
           dn == MkG(<<m>>, <<n>>, r1, r2, LAMBDA p, I, J, q :
                        IF <<p + 1, q + 1>> \in present THEN blk(p + 1, q + 1)[I[1] + 1][J[1] + 1] ELSE CZ)
           lst == [p \in 1..r1 |-> [q \in 1..r2 |->
                      IF <<p, q>> \in present THEN [z |-> FALSE, m |-> blk(p, q)] ELSE [z |-> TRUE, m |-> <<>>]]]
       IN  Step([op |-> "BuildCore", list |-> lst, iscomplex |-> flag, form |-> form],
                <<Obj(dn, <<r1, r2>>)>>, <<>>)

\* ------------------------------------------------------------------- gauge
RECURSIVE RkLeft(_, _, _, _)
\* rank bounds after a left sweep over cores s..e (0-based): r[i+1] <= min(r[i] m n, r[i+1])
RkLeft(rk, dn, s, e) ==
    IF s > e THEN rk
    ELSE RkLeft([rk EXCEPT ![s + 2] = Min(rk[s + 1] * dn.rd[s + 1] * dn.cd[s + 1], rk[s + 2])], dn, s + 1, e)
RECURSIVE RkRight(_, _, _, _)
\* right sweep over cores s down to e (0-based): r[i] <= min(r[i], m n r[i+1])
RkRight(rk, dn, s, e) ==
    IF s < e THEN rk
    ELSE RkRight([rk EXCEPT ![s + 1] = Min(rk[s + 1], dn.rd[s + 1] * dn.cd[s + 1] * rk[s + 2])], dn, s - 1, e)

ClosedB(o) == o.d.r0 = 1 /\ o.d.rN = 1 /\ Alive(o)
GaugeLeft(o, s, e) ==
    IF s > e THEN o
    ELSE [o EXCEPT !.lo = (o.lo \ {e + 1}) \cup (s..e),
                   !.ro = o.ro \ (s..(e + 1)),
                   !.rk = RkLeft(o.rk, o.d, s, e)]
GaugeRight(o, s, e) ==
    IF s < e THEN o
    ELSE [o EXCEPT !.ro = (o.ro \ {e - 1}) \cup (e..s),
                   !.lo = o.lo \ ((e - 1)..s),
                   !.rk = RkRight(o.rk, o.d, s, e)]

\* in-place; s, e are 0-based core indices as in the API; dflt: call without indices
OrthoLeft(a, s, e, dflt) ==
    /\ "OrthoLeft" \in Ops /\ ClosedB(pool[a])
    /\ 0 <= s /\ s <= e /\ e <= Order(pool[a]) - 2
    /\ (dflt => s = 0 /\ e = Order(pool[a]) - 2)
    /\ Step([op |-> "OrthoLeft", a |-> a, s |-> s, e |-> e, dflt |-> dflt,
             touched |-> s..(e + 1)], <<>>, <<<<a, GaugeLeft(pool[a], s, e)>>>>)

OrthoRight(a, s, e, dflt) ==
    /\ "OrthoRight" \in Ops /\ ClosedB(pool[a])
    /\ 1 <= e /\ e <= s /\ s <= Order(pool[a]) - 1
    /\ (dflt => e = 1 /\ s = Order(pool[a]) - 1)
    /\ Step([op |-> "OrthoRight", a |-> a, s |-> s, e |-> e, dflt |-> dflt,
             touched |-> (e - 1)..s], <<>>, <<<<a, GaugeRight(pool[a], s, e)>>>>)

Ortho(a) ==
    /\ "Ortho" \in Ops /\ ClosedB(pool[a])
    /\ LET d == Order(pool[a])
       IN  Step([op |-> "Ortho", a |-> a, touched |-> 0..(d - 1)], <<>>,
                <<<<a, GaugeRight(GaugeLeft(pool[a], 0, d - 2), d - 1, 1)>>>>)


\* truncating orthonormalisation (in place).  If the cap r is at least every rank bound the sweep can
\* produce, nothing is cut and the value is preserved exactly; otherwise the model does not predict the
\* value (opaque) but still the dims, the rank cap and the isometry flags.
CapRk(rk, r, lo, hi) == [t \in 1..Len(rk) |-> IF t >= lo /\ t <= hi THEN Min(rk[t], r) ELSE rk[t]]
Cuts(rk, r, lo, hi) == \E t \in lo..hi : rk[t] > r
OrthoTrunc(a, which, r) ==
    /\ "OrthoTrunc" \in Ops /\ ClosedB(pool[a]) /\ Order(pool[a]) >= 2
    /\ LET o == pool[a]
           d == Order(o)
           g == CASE which = "left" -> GaugeLeft(o, 0, d - 2)
                  [] which = "right" -> GaugeRight(o, d - 1, 1)
                  [] OTHER -> GaugeRight(GaugeLeft(o, 0, d - 2), d - 1, 1)
           cut == Cuts(g.rk, r, 2, d)
           g2 == [g EXCEPT !.rk = CapRk(g.rk, r, 2, d), !.isl = NoIsl,
                           !.st = IF cut /\ o.st = "exact" THEN "opaque" ELSE o.st,
                           !.d.v = IF cut THEN <<>> ELSE o.d.v]
       \* for an exact operand the event carries the dense value: the replay checks the TT-SVD quasi-optimality bound of the
       \* two-sided sweep (left sweep exact, right sweep truncating against an orthonormal environment)
       IN  Step([op |-> "OrthoTrunc", a |-> a, which |-> which, maxrank |-> r, cut |-> cut,
                 val |-> IF o.st = "exact" THEN o.d ELSE [o.d EXCEPT !.v = <<>>], thrp |-> 0, thrq |-> 1,
                 touched |-> 0..(d - 1)], <<>>, <<<<a, g2>>>>)

\* global SVD of a vector-type train at a split index: u (open right rank), s, v (open left rank).
\* The factors are opaque objects; the event carries the dense value so that the replay can check
\* u diag(s) v = value, the isometries and the singular values (C05).
\* opt = [r, p, q, ol, orr]: max_rank r (0: unbounded), relative threshold p/q (p = 0: none),
\* ortho_l / ortho_r flags.  Skipping a sweep is admissible only if that side is already orthonormal.
\* Truncating options are only enabled where their effect is determined: on un-gauged islands.
NoOpt == [r |-> 0, p |-> 0, q |-> 1, ol |-> TRUE, orr |-> TRUE]
SvdKeep(isl, opt) ==
    (IF opt.r = 0 THEN 1..Len(isl.sig) ELSE TopIdx(isl.sig, opt.r))
        \cap (IF opt.p = 0 THEN 1..Len(isl.sig) ELSE ThrIdx(isl.sig, opt.p, opt.q))
\* squares of the singular values of an island, largest first
RECURSIVE SortDesc(_)
SortDesc(S) == IF S = {} THEN <<>> ELSE LET m == CHOOSE x \in S : \A y \in S : y <= x IN <<m>> \o SortDesc(S \ {m})
IslSvSq(isl, keep) == LET sq == SortDesc({isl.sig[k] : k \in keep}) IN [t \in 1..Len(sq) |-> sq[t] * sq[t] * IslScaleSq(isl)]
\* the same with multiplicities (tied singular values appear as often as they are planted)
RECURSIVE SortIdxDesc(_, _)
SortIdxDesc(sig, KS) == IF KS = {} THEN <<>>
                        ELSE LET m == CHOOSE k \in KS : \A j \in KS : sig[j] <= sig[k] IN <<sig[m]>> \o SortIdxDesc(sig, KS \ {m})
IslSvSqM(isl, keep) == LET sq == SortIdxDesc(isl.sig, keep) IN [t \in 1..Len(sq) |-> sq[t] * sq[t] * IslScaleSq(isl)]

SvdO(a, index, ow, opt) ==
    /\ "Svd" \in Ops /\ Closed(pool[a]) /\ IsVec(pool[a])
    /\ Order(pool[a]) >= 2 /\ index >= 1 /\ index <= Order(pool[a]) - 1
    /\ (~opt.ol => (0..(index - 2)) \subseteq pool[a].lo)
    /\ (~opt.orr => (index..(Order(pool[a]) - 1)) \subseteq pool[a].ro)
    \* a relative threshold acts on the spectra the sweeps see: determined (= the planted ratios) only for
    \* an un-gauged island that has not been re-gauged; a rank cap below the number of terms may cut in a
    \* sweep over a non-canonical side, then only the rank cap and the isometries are claimed ("cut")
    /\ (opt.p # 0 => (HasIsl(pool[a]) /\ pool[a].ro = {} /\ pool[a].lo = {} /\ DistinctSig(pool[a].isl.sig)
                       /\ pool[a].gauged = FALSE /\ ~ThrTie(pool[a].isl.sig, opt.p, opt.q)))
    /\ (opt.r # 0 => HasIsl(pool[a]))
    /\ LET o == pool[a]
           d == Order(o)
           g == GaugeRight(GaugeLeft(o, 0, index - 2), d - 1, index)
           r0 == Min(g.rk[index] * o.d.rd[index], g.rk[index + 1])
           r == IF opt.r = 0 THEN r0 ELSE Min(r0, opt.r)
           u == [OpaqueObj(SubSeq(o.d.rd, 1, index), SubSeq(o.d.cd, 1, index), 1, r,
                           SubSeq(g.rk, 1, index) \o <<r>>) EXCEPT !.lo = 0..(index - 1)]
           v == [OpaqueObj(SubSeq(o.d.rd, index + 1, d), SubSeq(o.d.cd, index + 1, d), r, 1,
                           <<r>> \o SubSeq(g.rk, index + 2, d + 1)) EXCEPT !.ro = 0..(d - index - 1)]
           cut == HasIsl(o) /\ opt.r # 0 /\ opt.r < Len(o.isl.sig)
           keep == IF HasIsl(o) THEN SvdKeep(o.isl, [opt EXCEPT !.r = 0]) ELSE {}
           ev == [op |-> "Svd", a |-> a, index |-> index, ow |-> ow, opt |-> opt, rmax |-> r, cut |-> cut,
                  \* the tensor u diag(s) v must reproduce (the thresholded island if the threshold cuts)
                  val |-> IF HasIsl(o) /\ opt.p # 0 THEN [IslDense(o.isl, keep) EXCEPT !.cd = o.d.cd] ELSE o.d,
                  island |-> HasIsl(o) /\ DistinctSig(o.isl.sig),
                  svsq |-> IF HasIsl(o) THEN IslSvSq(o.isl, keep) ELSE <<>>]
       IN  IF ow THEN Step(ev, <<u, v>>, <<<<a, [o EXCEPT !.st = "dead", !.d.v = <<>>]>>>>)
                 ELSE Step(ev, <<u, v>>, <<>>)
Svd(a, index, ow) == SvdO(a, index, ow, NoOpt)

\* pseudoinverse at a split index with relative cut-off 10^-threxp (threxp > 0) or p/q.
\* The replay compares with the conjugate transpose of the Moore-Penrose pseudoinverse of the exact
\* unfolding carried in "val" (numeric evaluator).  Cut-offs that remove planted singular values are only
\* enabled on un-gauged islands (the sweeps of a non-canonical train would cut elsewhere).
PinvO(a, index, ow, p, q) ==
    /\ "Pinv" \in Ops /\ Closed(pool[a]) /\ IsVec(pool[a])
    /\ \E n \in 1..Len(pool[a].d.v) : pool[a].d.v[n] # CZ      \* not the zero tensor (s/s[0] undefined)
    /\ Order(pool[a]) >= 2 /\ index >= 1 /\ index <= Order(pool[a]) - 1
    /\ (p # 0 => (HasIsl(pool[a]) /\ pool[a].ro = {} /\ pool[a].lo = {} /\ DistinctSig(pool[a].isl.sig)
                  /\ pool[a].gauged = FALSE /\ ~ThrTie(pool[a].isl.sig, p, q)))
    /\ LET o == pool[a]
           pinv == OpaqueObj(o.d.rd, o.d.cd, 1, 1, [t \in 1..Len(o.rk) |-> IF t = 1 \/ t = Len(o.rk) THEN 1 ELSE UNK])
           \* relative cut-off 10^-12: drops exactly the zero singular values of an integer unfolding
           ev == [op |-> "Pinv", a |-> a, index |-> index, ow |-> ow, val |-> o.d, threxp |-> IF p = 0 THEN 12 ELSE 0,
                  thrp |-> p, thrq |-> q]
       IN  IF ow THEN Step(ev, <<pinv>>, <<<<a, [o EXCEPT !.st = "dead", !.d.v = <<>>]>>>>)
                 ELSE Step(ev, <<pinv>>, <<>>)
Pinv(a, index, ow) == PinvO(a, index, ow, 0, 1)


\* ---------------------------------------------------------------- C04: truncation
\* ortho(max_rank = caps) on an island operand: caps is the per-bond list <<1, r_1, .., r_{d-1}, 1>>
\* (asInt: the same cap on every bond, passed as an int).  The left sweep is exact, the right sweep
\* cuts every bond of a left-orthonormal train: the result is the sum of the min(caps) largest terms.
\* INFCAP stands for numpy.inf in the per-bond list ("this bond is not capped")
INFCAP == 99
IslOrthoTrunc(a, caps, asInt) ==
    /\ "IslOrthoTrunc" \in Ops /\ Closed(pool[a]) /\ HasIsl(pool[a])
    /\ LET o == pool[a]
           isl == o.isl
           d == Order(o)
           K == Len(isl.sig)
           rmin == IMinTo([t \in 1..(d - 1) |-> caps[t + 1]], d - 1)
           keep == TopIdx(isl.sig, rmin)
           g == GaugeRight(GaugeLeft(o, 0, d - 2), d - 1, 1)
           pred == DistinctSig(isl.sig)           \* with ties only ranks and error are predicted
           res == [g EXCEPT !.d = IF pred THEN IslDense(isl, keep) ELSE [o.d EXCEPT !.v = <<>>],
                            !.st = IF pred THEN "exact" ELSE "opaque",
                            !.rk = [t \in 1..(d + 1) |-> Min(g.rk[t], caps[t])],
                            !.isl = NoIsl]
       IN  /\ d >= 2 /\ Len(caps) = d + 1
           /\ \A t \in 2..d : ~CapSplitsTie(isl.sig, caps[t])      \* determined effect only (see Islands!CapSplitsTie)
           /\ Step([op |-> "IslOrthoTrunc", a |-> a, caps |-> caps, asInt |-> asInt, val |-> o.d,
                    errsq |-> SumSq(isl.sig, (1..K) \ keep) * IslScaleSq(isl),
                    boundsq |-> ISumTo([t \in 1..(d - 1) |-> SumSq(isl.sig, (1..K) \ TopIdx(isl.sig, caps[t + 1]))], d - 1)
                                    * IslScaleSq(isl),
                    touched |-> 0..(d - 1)], <<>>, <<<<a, res>>>>)

\* TT(full array, threshold = p/q, max_rank = r); r = 0 means unbounded, p = 0 means no threshold.
\* For an island the kept terms are known exactly; for a general exact operand the value is predicted
\* only when nothing is cut, otherwise the replay checks the rank cap and the error bounds (C04)
\* against the singular values of the exact unfoldings carried in "val".
FromArray(a, r, p, q) ==
    /\ "FromArray" \in Ops /\ Closed(pool[a])
    /\ LET o == pool[a]
           d == Order(o)
           isl == o.isl
           K == Len(isl.sig)
           keep == (IF r = 0 THEN 1..K ELSE TopIdx(isl.sig, r)) \cap (IF p = 0 THEN 1..K ELSE ThrIdx(isl.sig, p, q))
           exactPred == (r = 0 /\ p = 0) \/ (HasIsl(o) /\ DistinctSig(isl.sig))
           dn == IF r = 0 /\ p = 0 THEN o.d
                 ELSE IF HasIsl(o) /\ DistinctSig(isl.sig) THEN [IslDense(isl, keep) EXCEPT !.cd = o.d.cd]
                 ELSE [o.d EXCEPT !.v = <<>>]
           rk == [t \in 1..(d + 1) |-> IF t = 1 \/ t = d + 1 THEN 1 ELSE IF r = 0 THEN UNK ELSE r]
           res == [Obj(dn, rk) EXCEPT !.st = IF exactPred THEN "exact" ELSE "opaque", !.lo = 0..(d - 2)]
       IN  /\ (p # 0 => (\E n \in 1..Len(o.d.v) : o.d.v[n] # CZ))
           /\ (p # 0 /\ HasIsl(o) => ~ThrTie(isl.sig, p, q))
           /\ (r # 0 /\ HasIsl(o) => ~CapSplitsTie(isl.sig, r))
           /\ Step([op |-> "FromArray", a |-> a, maxrank |-> r, thrp |-> p, thrq |-> q, val |-> o.d,
                    island |-> HasIsl(o),
                    errsq |-> IF HasIsl(o) THEN SumSq(isl.sig, (1..K) \ keep) * IslScaleSq(isl) ELSE -1],
                   <<res>>, <<>>)


\* utils.truncated_svd on the unfolding (first "index" modes | the rest) of an island: every unfolding of an odeco tensor
\* has the singular values sig_k * sqrt(IslScaleSq).  threshold p/q relative to the largest singular value (rel) or the
\* absolute threshold absT (an integer; s_k > absT  <=>  sig_k^2 * IslScaleSq > absT^2), then the rank cap r (0: numpy.inf).
\* Returns arrays, the pool is unchanged.  Cuts inside a group of tied singular values are excluded (not determined).
MatSvd(a, index, r, p, q, rel, absT) ==
    /\ "MatSvd" \in Ops /\ Closed(pool[a]) /\ HasIsl(pool[a]) /\ IsVec(pool[a])
    /\ index >= 1 /\ index <= Order(pool[a]) - 1
    /\ (rel => absT = 0) /\ (~rel => p = 0 /\ absT > 0)
    /\ LET o == pool[a]
           isl == o.isl
           K == Len(isl.sig)
           thr == IF rel THEN (IF p = 0 THEN 1..K ELSE ThrIdx(isl.sig, p, q))
                  ELSE {k \in 1..K : isl.sig[k] * isl.sig[k] * IslScaleSq(isl) > absT * absT}
           keep == (IF r = 0 THEN 1..K ELSE TopIdx(isl.sig, r)) \cap thr
       IN  /\ (rel /\ p # 0 => ~ThrTie(isl.sig, p, q))
           /\ (~rel => \A k \in 1..K : isl.sig[k] * isl.sig[k] * IslScaleSq(isl) # absT * absT)
           /\ (r # 0 => ~CapSplitsTie(isl.sig, r))
           /\ (r # 0 => Cardinality(keep) = Min(r, Cardinality(thr)))
           /\ Step([op |-> "MatSvd", a |-> a, index |-> index, maxrank |-> r, thrp |-> p, thrq |-> q, rel |-> rel, absT |-> absT,
                    val |-> o.d, kept |-> [IslDense(isl, keep) EXCEPT !.cd = o.d.cd], svsq |-> IslSvSqM(isl, keep)], <<>>, <<>>)

\* ------------------------------------------------------- documented error paths
\* A call with inadmissible arguments raises the documented exception and changes nothing: no new object,
\* no target.  "what" names the call and the kind of inadmissibility, "exc" the documented exception type.
RejectKinds ==
    {<<"add_dims", "ValueError">>, <<"add_type", "TypeError">>, <<"mul_type", "TypeError">>, <<"matmul_dims", "ValueError">>,
     <<"matmul_type", "TypeError">>, <<"element_len", "ValueError">>, <<"element_range", "IndexError">>,
     <<"element_type", "TypeError">>, <<"tensordot_axes", "ValueError">>, <<"tensordot_mode", "ValueError">>,
     <<"tensordot_num", "ValueError">>, <<"norm_p", "ValueError">>, <<"ortho_threshold", "ValueError">>,
     <<"ortho_maxrank", "ValueError">>, <<"ortho_index_type", "TypeError">>, <<"full_open", "ValueError">>,
     <<"concat_ranks", "ValueError">>, <<"ranktd_ndim", "ValueError">>, <<"ranktd_dims", "ValueError">>,
     <<"ranktd_mode", "ValueError">>, <<"init_type", "TypeError">>, <<"init_ndim", "ValueError">>,
     <<"init_ranks", "ValueError">>, <<"init_odd", "ValueError">>}
Applicable(kind, a, b) ==
    CASE kind = "add_dims" -> Closed(pool[a]) /\ Closed(pool[b]) /\ ~SameDims(pool[a], pool[b])
      [] kind = "matmul_dims" -> Closed(pool[a]) /\ Closed(pool[b]) /\ pool[a].d.cd # pool[b].d.rd
      [] kind = "tensordot_axes" -> Closed(pool[a]) /\ Closed(pool[b]) /\ Order(pool[a]) >= 1 /\ Order(pool[b]) >= 1
                                    /\ (pool[a].d.rd[Order(pool[a])] # pool[b].d.rd[1] \/ pool[a].d.cd[Order(pool[a])] # pool[b].d.cd[1])
      [] kind = "tensordot_num" -> Closed(pool[a]) /\ Closed(pool[b])
      [] kind = "tensordot_mode" -> Closed(pool[a]) /\ Closed(pool[b])
      [] kind = "concat_ranks" -> Exact(pool[a]) /\ Exact(pool[b]) /\ pool[a].d.rN # pool[b].d.r0
      [] kind = "full_open" -> Exact(pool[a]) /\ (pool[a].d.r0 # 1 \/ pool[a].d.rN # 1)
      [] kind \in {"ortho_threshold", "ortho_maxrank", "ortho_index_type"} -> ClosedB(pool[a]) /\ Order(pool[a]) >= 2
      [] kind \in {"ranktd_ndim", "ranktd_dims", "ranktd_mode"} -> Exact(pool[a])
      [] OTHER -> Closed(pool[a])
Reject(kind, exc, a, b) ==
    /\ "Reject" \in Ops
    /\ Applicable(kind, a, b)
    /\ Step([op |-> "Reject", what |-> kind, exc |-> exc, a |-> a, b |-> b], <<>>, <<>>)

\* ----------------------------------------------------------------- Next
BOOL2 == {FALSE, TRUE}
Next ==
    /\ CanStep
    /\ \/ \E a \in Ids : \/ Full(a) \/ Matricize(a) \/ Elements(a) \/ IsOperator(a)
                         \/ Norm2(a) \/ Norm1(a) \/ Copy(a)
                         \/ \E ow \in OWs : Conj(a, ow) \/ RankTranspose(a, ow)
                         \/ \E S \in (SUBSET (1..Order(pool[a]))) \ {{}}, cj \in BOOL2, ow \in OWs :
                                Transpose(a, S, cj, ow)
                         \/ \E s \in Scalars, side \in {"left", "right"}, how \in {"int", "float", "complex"} :
                                SMul(a, s, side, how)
                         \/ \E S \in SUBSET (1..Order(pool[a])) : Diag(a, S)
                         \/ Squeeze(a)
                         \/ \E n \in (IF Lean THEN {2} ELSE 1..2), mode \in {"first", "last"}, ow \in OWs :
                                RankTensordot(a, n, mode, Len(hist), ow)
                         \/ \E s \in 0..(MaxD - 2), e \in 0..(MaxD - 2) :
                                OrthoLeft(a, s, e, FALSE) \/ OrthoLeft(a, s, e, TRUE)
                         \/ \E s \in 1..(MaxD - 1), e \in 1..(MaxD - 1) :
                                OrthoRight(a, s, e, FALSE) \/ OrthoRight(a, s, e, TRUE)
                         \/ Ortho(a)
                         \/ \E caps \in [1..(Order(pool[a]) + 1) -> {1, 2, 3, INFCAP}], asInt \in BOOL2 :
                                /\ caps[1] = 1 /\ caps[Order(pool[a]) + 1] = 1
                                /\ (asInt => \A t \in 2..Order(pool[a]) : caps[t] = caps[2])
                                /\ (Lean => asInt)
                                /\ IslOrthoTrunc(a, caps, asInt)
                         \/ \E r \in 0..3, pq \in {<<0, 1>>, <<1, 3>>, <<3, 5>>, <<9, 10>>, <<1, 100>>} :
                                FromArray(a, r, pq[1], pq[2])
                         \/ \E which \in {"left", "right", "both"}, r \in (IF Lean THEN {1} ELSE 1..2) : OrthoTrunc(a, which, r)
                         \/ \E index \in 1..(MaxD - 1), r \in 0..3, pq \in {<<0, 1>>, <<1, 3>>, <<3, 5>>, <<9, 10>>} :
                                MatSvd(a, index, r, pq[1], pq[2], TRUE, 0)
                         \/ \E index \in 1..(MaxD - 1), r \in 0..3, absT \in {1, 20, 50, 120} :
                                MatSvd(a, index, r, 0, 1, FALSE, absT)
                         \/ \E index \in 1..(MaxD - 1), ow \in OWs : Svd(a, index, ow) \/ Pinv(a, index, ow)
                         \/ \E index \in 1..(MaxD - 1), ow \in OWs, ol \in BOOL2, orr \in BOOL2, r \in 0..3,
                               pq \in {<<0, 1>>, <<1, 3>>, <<3, 5>>, <<9, 10>>} :
                                /\ "SvdOpt" \in Ops
                                /\ (r # 0 \/ pq[1] # 0 \/ ~ol \/ ~orr)
                                /\ SvdO(a, index, ow, [r |-> r, p |-> pq[1], q |-> pq[2], ol |-> ol, orr |-> orr])
                         \/ \E index \in 1..(MaxD - 1), ow \in OWs, pq \in {<<1, 3>>, <<3, 5>>, <<9, 10>>} :
                                "PinvThr" \in Ops /\ PinvO(a, index, ow, pq[1], pq[2])
                         \/ \E f \in {g \in [1..Order(pool[a]) ->
                                            UNION {ModeFacts(pool[a].d.rd[k], pool[a].d.cd[k]) : k \in 1..Order(pool[a])}] :
                                        \A k \in 1..Order(pool[a]) : g[k] \in ModeFacts(pool[a].d.rd[k], pool[a].d.cd[k])} :
                                TT2QTT(a, [k \in 1..Order(pool[a]) |-> f[k][1]], [k \in 1..Order(pool[a]) |-> f[k][2]])
                         \/ \E nums \in Compositions(Order(pool[a])) : QTT2TT(a, nums)
       \/ \E a \in Ids, b \in Ids :
             \/ Add(a, b) \/ Sub(a, b)
             \/ \E via \in Vias : MatMul(a, b, via)
             \/ \E k \in 1..Max(MaxD, MaxDB), mode \in TDModes, ow \in OWs : Tensordot(a, b, k, mode, ow)
             \/ \E form \in {"tt", "list"}, ow \in OWs : Concatenate(a, b, form, ow)
       \/ \E a \in Ids, x \in Ids, b \in Ids : Residual(a, x, b)
       \/ \E a \in Ids, b \in Ids, ke \in RejectKinds : Reject(ke[1], ke[2], a, b)
       \/ \E rd \in CtorDims, cd \in CtorDims, r \in RanksS : Zeros(rd, cd, r) \/ Ones(rd, cd, r)
       \/ \E dims \in CtorDims : Eye(dims)
       \/ \E dims \in CtorDims : \E inds \in {f \in [1..Len(dims) -> 0..2] : \A k \in 1..Len(dims) : f[k] < dims[k]} :
             Unit(dims, inds)
       \/ \E dims \in CtorDims, r \in RanksS, nrm \in {1, 3} : Uniform(dims, r, nrm)
       \/ \E r1 \in RanksS, r2 \in RanksS, m \in DimsR, n \in DimsC, cplx \in {"no", "all", "altA", "altB"}, flag \in BOOL2,
             form \in {"matrix", "vector"} :
             \E present \in SUBSET ((1..r1) \X (1..r2)) : BuildCore(r1, r2, m, n, present, cplx, flag, form)

Spec == Init /\ [][Next]_vars

\* ------------------------------------------------------ model-level properties
\* value semantics: an action changes only the objects its event names in "mod"
ValueSemantics ==
    [][\A i \in 1..Len(pool) :
          (\A m \in 1..Len(hist'[Len(hist')].mod) : hist'[Len(hist')].mod[m][1] # i) => pool'[i] = pool[i]]_vars

\* every object's metadata is consistent: rank bounds have length order+1, flags in range
Consistent ==
    \A i \in Ids : /\ Len(pool[i].d.rd) = Len(pool[i].d.cd)
                   /\ Len(pool[i].rk) = Len(pool[i].d.rd) + 1
                   /\ (Exact(pool[i]) => Len(pool[i].d.v) = Size(pool[i].d))
                   /\ pool[i].lo \subseteq 0..(Order(pool[i]) - 1)
                   /\ pool[i].ro \subseteq 0..(Order(pool[i]) - 1)

\* ----------------------------------------------------------------- emission
Emit ==
    (Len(hist) > 0 /\ hist[Len(hist)].op # "New" /\ (EmitAll \/ Depth = MaxDepth))
        => PrintT("@@CASE " \o ToJson(hist))
=============================================================================
