------------------------------ MODULE EigSolve ------------------------------
(***************************************************************************)
(* C08: islands for the ALS eigen-solver and the inverse power iteration.  *)
(* Hermitian operators with exact integer / Gaussian-integer TT cores:     *)
(*    kind "pd"   A = G^H G + 2 I            (positive definite)           *)
(*    kind "ind"  A = G + G^H                (indefinite)                  *)
(* and, for generalised problems, B = C^H C + I.  Guesses have full-rank   *)
(* interfaces (LinSolve!FullRankCores) at every admissible rank profile.   *)
(* The contract of a solver call (checked by the replay on the real code;  *)
(* spectra of the exact dense operators come from the numeric evaluator):  *)
(*   - returned lambda = Rayleigh quotient of the returned tensor, unit     *)
(*     2-norm for standard problems                                        *)
(*   - lambda <= lambda_max of the pencil                                  *)
(*   - |lambda(repeats = k+1) - sigma| <= |lambda(repeats = k) - sigma|    *)
(*   - exact extremal eigentensor as guess => returned up to phase         *)
(*   - guess of maximal ranks => exact extremal eigenpair                  *)
(*   - deflation with shift  ==  explicitly shifted operator               *)
(*   - power iteration from a maximal-rank guess converges to the pair     *)
(*     nearest sigma and reports its true Rayleigh quotient                *)
(***************************************************************************)
EXTENDS LinSolve

HermCores(kind, G, dims) ==
    IF kind = "pd" THEN AddCores(MatMulCores(AdjCores(G), G), EyeCores(dims, 2))
    ELSE AddCores(G, AdjCores(G))

EigIsland(c) ==
    LET G == FillCores(IF c.cplx THEN "complex" ELSE "real", c.seed, OpShape(c.dims, c.rg))
        \* seed 2: a complex Hermitian positive-definite right-hand operator also for real A and a real guess (mixed dtypes)
        Cg == FillCores(IF c.cplx \/ c.seed = 2 THEN "complex" ELSE "real", c.seed + 7, OpShape(c.dims, 1))
    IN  [A |-> HermCores(c.kind, G, c.dims),
         B |-> IF c.gen THEN AddCores(MatMulCores(AdjCores(Cg), Cg), EyeCores(c.dims, 1)) ELSE <<>>,
         \* seed 2: real-valued (real dtype) guesses also for complex operators (mixed dtypes)
         x0 |-> FullRankCores(c.dims, c.r0, c.seed + 3, c.cplx /\ c.seed # 2),
         xfull |-> FullRankCores(c.dims, MaxRanks(c.dims), c.seed + 2, c.cplx /\ c.seed # 2)]

EigDims == IF Level = 1 THEN {<<2, 2>>, <<2, 2, 2>>, <<3, 2>>, <<2, 3, 2>>, <<3>>, <<1, 2, 2>>, <<2, 1, 2>>} ELSE {<<3>>, <<2, 2, 1>>, <<1, 3, 2>>} \cup
           {<<2>>, <<2, 2>>, <<2, 2, 2>>, <<3, 2>>, <<2, 3, 2>>, <<2, 2, 2, 2>>, <<3, 3>>, <<2, 2, 3>>}
EigConfigs ==
    UNION {{[dims |-> dims, rg |-> rg, kind |-> kind, gen |-> gen, cplx |-> cplx, seed |-> seed, r0 |-> r0] :
              rg \in {1, 2}, kind \in {"pd", "ind"}, gen \in BOOLEAN, cplx \in BOOLEAN, seed \in {1, 2},
              r0 \in RankProfiles(dims)} : dims \in EigDims}

EigIx(c) == ISum(c.dims) * 3 + ISum(c.r0) * 5 + c.rg + c.seed * 7 + (IF c.cplx THEN 1 ELSE 0) + Len(c.kind) + (IF c.gen THEN 3 ELSE 0)
EInit == cfg \in {c \in EigConfigs : EigIx(c) % NShards = Shard} /\ out = <<>>
EBuild == out = <<>> /\ out' = <<EigIsland(cfg)>> /\ UNCHANGED cfg
ENext == EBuild

\* model-level: A (and B) Hermitian on small instances
EigIslandOK ==
    (out # <<>> /\ Prod(cfg.dims) <= 8) =>
        LET A == FullOf(out[1].A)
            N == Prod(cfg.dims)
        IN  \A r \in 1..N, c \in 1..N : A.v[(r - 1) * N + c] = CConj(A.v[(c - 1) * N + r])

EEmit == out # <<>> => PrintT("@@CASE " \o ToJson([cfg |-> cfg, isl |-> out[1], maxranks |-> MaxRanks(cfg.dims)]))
=============================================================================
