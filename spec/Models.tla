------------------------------- MODULE Models -------------------------------
(***************************************************************************)
(* C13: reference definitions of the bundled models (scikit_tt.models).    *)
(* One configuration per state; Build computes the exact reference:        *)
(*   ising      energy tensor  H(x) = -J sum x_i x_{i+1} - h sum x_i       *)
(*   exciton    periodic chain Hamiltonian  alpha sum n_i + beta sum hops  *)
(*   qft/iqft   exponent table of the bit-reversed DFT (and its conjugate) *)
(*   fpu        10 * right-hand side of the Fermi-Pasta-Ulam chain         *)
(*   kuramoto   5 d * right-hand side in the variables s_j = sin x_j,      *)
(*              c_j = cos x_j (the coefficient tensor is multilinear in    *)
(*              them, so the identity is checked at integer points)        *)
(*   cantor / multisponge / vicsek / rgb   Kronecker powers of the seeds   *)
(*   co         CO oxidation: one generator per rate class (unit rate)     *)
(*   generator / unitary   configurations whose result is checked for the  *)
(*              structural property only (sizes and parameters enumerated  *)
(*              here)                                                      *)
(***************************************************************************)
EXTENDS SlimBase, Json

CONSTANTS Level, NShards, Shard     \* Level: 1 quick, 2 thorough (size grids)

VARIABLES cfg, out
vars == <<cfg, out>>

Sigma(b) == IF b = 0 THEN 1 ELSE -1
Ones(d) == [k \in 1..d |-> 1]
Twos(d) == [k \in 1..d |-> 2]

\* ---- Ising
Ising(d, J, h) ==
    Mk(Twos(d), Ones(d), LAMBDA X, Z :
        CI(0 - J * ISumTo([i \in 1..(d - 1) |-> Sigma(X[i]) * Sigma(X[i + 1])], d - 1)
             - h * ISumTo([i \in 1..d |-> Sigma(X[i])], d)))

\* ---- exciton chain (periodic; for n = 2 the bond is counted twice, as the construction does)
Hop(n, Y, X, i) ==
    LET j == IF i = n THEN 1 ELSE i + 1
    IN  Ind(X[i] = 0 /\ X[j] = 1 /\ Y = [X EXCEPT ![i] = 1, ![j] = 0])
      + Ind(X[i] = 1 /\ X[j] = 0 /\ Y = [X EXCEPT ![i] = 0, ![j] = 1])
Exciton(n, alpha, beta) ==
    Mk(Twos(n), Twos(n), LAMBDA Y, X :
        CI(alpha * Ind(Y = X) * ISumTo(X, n) + beta * ISumTo([i \in 1..n |-> Hop(n, Y, X, i)], n)))

\* ---- QFT: the ordered product G[n-1] ... G[0] of the gate groups is  omega^E[y,x] / sqrt(2^n)
RECURSIVE BitRev(_, _)
BitRev(y, n) == IF n = 0 THEN 0 ELSE (y % 2) * (2 ^ (n - 1)) + BitRev(y \div 2, n - 1)
QftExp(n, inverse) ==
    LET N == 2 ^ n
    IN  [y \in 1..N |-> [x \in 1..N |->
            LET e == (BitRev(y - 1, n) * (x - 1)) % N IN IF inverse THEN (N - e) % N ELSE e]]

\* ---- FPU: 10 * rhs_q(x), fixed ends, beta = 7/10
Cube(z) == z * z * z
FpuRhs10(d, x) ==
    LET xe == [k \in 0..(d + 1) |-> IF k = 0 \/ k = d + 1 THEN 0 ELSE x[k]]
    IN  [q \in 1..d |-> 10 * (xe[q + 1] - 2 * xe[q] + xe[q - 1])
                        + 7 * (Cube(xe[q + 1] - xe[q]) - Cube(xe[q] - xe[q - 1]))]

\* ---- Kuramoto: 5 d * ( w_i + (2/d) sum_j (s_j c_i - c_j s_i) + (1/5) s_i )
KuraRhs5d(d, w, sv, cv) ==
    [i \in 1..d |-> 5 * d * w[i] + 10 * ISumTo([j \in 1..d |-> sv[j] * cv[i] - cv[j] * sv[i]], d) + d * sv[i]]

\* ---- fractals: seeds on {0,1,2}^dim (1 = middle), Kronecker power of a seed
Mid(I) == Cardinality({k \in 1..Len(I) : I[k] = 1})
SeedVal(kind, I) ==
    CASE kind = "cantor" -> Ind(Mid(I) = 0)
      [] kind = "multisponge" -> Ind(Mid(I) <= 1)
      [] kind = "vicsek" -> Ind(Mid(I) >= Len(I) - 1)
Digit(p, l, level) == (p \div (3 ^ (level - l))) % 3
Fractal(kind, dim, level) ==
    LET n == 3 ^ level
    IN  Mk([k \in 1..dim |-> n], Ones(dim), LAMBDA P, Z :
            CI(Prod([l \in 1..level |-> SeedVal(kind, [k \in 1..dim |-> Digit(P[k], l, level)])])))
\* RGB fractal: value[I, J, c] = PROD_l M_c[i_l][j_l]   (n x n integer matrices M_c)
RgbMat(seed, c, n) == [i \in 1..n |-> [j \in 1..n |-> (((seed + SaltValue) * 7 + c * 5 + i * 3 + j * 11 + i * j) % 3)]]
DigitN(p, l, level, n) == (p \div (n ^ (level - l))) % n
Rgb(seed, n, level) ==
    Mk(<<n ^ level, n ^ level, 3>>, <<1, 1, 1>>, LAMBDA P, Z :
        CI(Prod([l \in 1..level |-> RgbMat(seed, P[3] + 1, n)[DigitN(P[1], l, level, n) + 1][DigitN(P[2], l, level, n) + 1]])))

\* ---- CO oxidation: rate classes of the documented reaction list (states: 0 empty, 1 O, 2 CO)
CoClasses == <<"k_ad_co", "k_de_co", "k_ad_o2", "k_de_o2", "k_de_co2", "k_diff_o", "k_diff_co">>
CoSingle(cls) == CASE cls = "k_ad_co" -> <<<<0, 2, 1>>>> [] cls = "k_de_co" -> <<<<2, 0, 1>>>> [] OTHER -> <<>>
CoTwo(cls) ==
    CASE cls = "k_ad_o2" -> <<<<0, 1, 0, 1, 1>>>>
      [] cls = "k_de_o2" -> <<<<1, 0, 1, 0, 1>>>>
      [] cls = "k_de_co2" -> <<<<2, 0, 1, 0, 1>>, <<1, 0, 2, 0, 1>>>>
      [] cls = "k_diff_o" -> <<<<1, 0, 0, 1, 1>>, <<0, 1, 1, 0, 1>>>>
      [] cls = "k_diff_co" -> <<<<0, 2, 2, 0, 1>>, <<2, 0, 0, 2, 1>>>>
      [] OTHER -> <<>>
CoClassGen(order, cyclic, cls) ==
    Generator([k \in 1..order |-> 3], [k \in 1..order |-> CoSingle(cls)],
              [b \in 1..(IF cyclic THEN order ELSE order - 1) |-> CoTwo(cls)])

\* ---- configurations
PtsH(a0, b, c) == LET a == a0 + SaltValue IN ((a * 13 + b * 7 + c * 5 + a * b) % 7) - 3
Configs ==
    {[model |-> "ising", d |-> d, J |-> J, h |-> h] : d \in 2..(IF Level = 1 THEN 5 ELSE 6), J \in {1, -2}, h \in {0, 3}}
    \cup {[model |-> "exciton", n |-> n, alpha |-> a, beta |-> b] : n \in 2..(IF Level = 1 THEN 5 ELSE 6), a \in {1, 3}, b \in {-1, 2}}
    \cup {[model |-> m, n |-> n] : m \in {"qft", "iqft"}, n \in 1..(IF Level = 1 THEN 6 ELSE 7)}
    \cup {[model |-> "fpu", d |-> d, x |-> [k \in 1..d |-> PtsH(seed, k, d)]] : d \in 2..(IF Level = 1 THEN 4 ELSE 6), seed \in 1..3}
    \cup {[model |-> "kuramoto", d |-> d, w |-> [k \in 1..d |-> PtsH(seed, k, 1)], s |-> [k \in 1..d |-> PtsH(seed, k, 2)],
           c |-> [k \in 1..d |-> PtsH(seed + 1, k, 3)]] : d \in 2..(IF Level = 1 THEN 5 ELSE 8), seed \in 1..3}
    \* every level whose dense tensor has at most 3^8 (quick) / 3^9 entries: the levels 4.. are where a power computed by
    \* repeated squaring, or a loop bound, first differs from the small ones
    \cup {c \in [model : {"cantor"}, dim : 1..3, level : 1..8] : c.dim * c.level <= (IF Level = 1 THEN 8 ELSE 9)}
    \cup {c \in [model : {"multisponge", "vicsek"}, dim : 2..3, level : 1..4] : c.dim * c.level <= (IF Level = 1 THEN 8 ELSE 9)}
    \cup {c \in [model : {"rgb"}, n : 2..3, level : 1..5, seed : 1..2] : c.n ^ c.level <= (IF Level = 1 THEN 27 ELSE 81)}
    \* structural checks only: the size / parameter grid is fixed here
    \cup {[model |-> "co_generator", order |-> o, cyclic |-> cy, kexp |-> ke] : o \in 2..(IF Level = 1 THEN 5 ELSE 6), cy \in BOOLEAN, ke \in {-2, 0, 4}}
    \cup {[model |-> "cascade", d |-> d] : d \in 2..(IF Level = 1 THEN 3 ELSE 4)}
    \cup {[model |-> "toll", lanes |-> l, cars |-> c] : l \in 2..(IF Level = 1 THEN 3 ELSE 4), c \in 1..(IF Level = 1 THEN 2 ELSE 3)}
    \cup {[model |-> "twostep", m |-> m, k |-> k] : m \in 1..(IF Level = 1 THEN 3 ELSE 4), k \in {<<1, 2, 1>>, <<3, 1, 5>>}}
    \cup {[model |-> "qfa"]} \cup {[model |-> "qfan", k |-> k] : k \in 2..(IF Level = 1 THEN 3 ELSE 4)}
    \cup {[model |-> "shor", a |-> a] : a \in {2, 4, 7, 8, 11, 13, 14}}
    \cup {[model |-> m, n |-> n, unitary |-> TRUE] : m \in {"qft_groups", "iqft_groups"}, n \in 1..(IF Level = 1 THEN 6 ELSE 7)}

CfgIx(c) == Len(c.model) * 3 + (IF "d" \in DOMAIN c THEN c.d ELSE 0) + (IF "n" \in DOMAIN c THEN c.n * 5 ELSE 0)
            + (IF "level" \in DOMAIN c THEN c.level * 7 ELSE 0) + (IF "dim" \in DOMAIN c THEN c.dim ELSE 0) + (IF "order" \in DOMAIN c THEN c.order ELSE 0)
            + (IF "a" \in DOMAIN c THEN c.a ELSE 0)

Init == cfg \in {c \in Configs : CfgIx(c) % NShards = Shard} /\ out = <<>>

Reference(c) ==
    CASE c.model = "ising" -> [dense |-> Ising(c.d, c.J, c.h)]
      [] c.model = "exciton" -> [dense |-> Exciton(c.n, c.alpha, c.beta)]
      [] c.model \in {"qft", "iqft"} -> [exp |-> QftExp(c.n, c.model = "iqft"), N |-> 2 ^ c.n]
      [] c.model = "fpu" -> [rhs10 |-> FpuRhs10(c.d, c.x)]
      [] c.model = "kuramoto" -> [rhs5d |-> KuraRhs5d(c.d, c.w, c.s, c.c)]
      [] c.model \in {"cantor", "multisponge", "vicsek"} -> [dense |-> Fractal(c.model, c.dim, c.level)]
      [] c.model = "rgb" -> [dense |-> Rgb(c.seed, c.n, c.level), mats |-> [k \in 1..3 |-> RgbMat(c.seed, k, c.n)]]
      [] c.model = "co" -> [classes |-> CoClasses,
                            gens |-> [k \in 1..Len(CoClasses) |-> CoClassGen(c.order, c.cyclic, CoClasses[k]).v]]
      [] OTHER -> [structural |-> TRUE]

Build == out = <<>> /\ out' = <<Reference(cfg)>> /\ UNCHANGED cfg
Next == Build
Spec == Init /\ [][Next]_vars

\* model-level sanity: the references of Hermitian models are symmetric, the CO class generators are generators
RefSane ==
    (out # <<>>) =>
        CASE cfg.model = "exciton" -> LET g == out[1].dense  N == 2 ^ cfg.n
                                      IN  \A r \in 1..N, c \in 1..N : g.v[(r - 1) * N + c] = g.v[(c - 1) * N + r]
          [] cfg.model = "co" -> LET N == 3 ^ cfg.order
                                 IN  \A k \in 1..Len(CoClasses), c \in 1..N :
                                        ISumTo([r \in 1..N |-> out[1].gens[k][(r - 1) * N + c][1]], N) = 0
          [] OTHER -> TRUE

Emit == out # <<>> => PrintT("@@CASE " \o ToJson([cfg |-> cfg, expect |-> out[1]]))
=============================================================================
