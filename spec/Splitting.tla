------------------------------ MODULE Splitting -----------------------------
(***************************************************************************)
(* C10: splitting integrators for nearest-neighbour (SLIM) operators.      *)
(*                                                                         *)
(* Local generators ("bonds", 0-based as in the code):                     *)
(*    K_b = S_b (x) I + SUM_k L_b^k (x) M_{b+1}^k     for b < d-1           *)
(*    K_{d-1} = S_{d-1}   (the last site's single-site term)               *)
(* A stage "E" applies exp(c h K_b) for all even b, a stage "O" for all    *)
(* odd b (bond d-1 belongs to the stage of its parity).  A scheme is a     *)
(* WORD of stages with coefficients:                                       *)
(*    Lie        E(1) O(1)                                                 *)
(*    Strang     E(1/2) O(1) E(1/2)                  =: S(1)               *)
(*    Yoshida    S(w1) S(w0) S(w1),  w1 = 1/(2-2^(1/3)), w0 = 1 - 2 w1     *)
(*    Kahan-Li   S(c0) ... S(c8) S(c7) ... S(c0)                           *)
(* with S(c) = E(c/2) O(c) E(c/2).  One step of a scheme is the ordered    *)
(* product of the stage propagators applied to the state.                  *)
(* TLC checks the words (every bond once per E/O pair, palindromes, the    *)
(* coefficients of the E and of the O stages sum to 1) and emits islands   *)
(* (integer components, non-stationary integer states).                    *)
(***************************************************************************)
EXTENDS TTBase, Json

CONSTANTS Level, NShards, Shard
VARIABLES cfg, out
vars == <<cfg, out>>

\* coefficients: <<"rat", n, d>> | <<"sym", "w1"|"w0", n, d>> (n/d times the symbol) | <<"dec", sign, nine-digit integer, digit string>>
Rat(n, d) == [kind |-> "rat", n |-> n, d |-> d]
Sym(s, n, d) == [kind |-> "sym", s |-> s, n |-> n, d |-> d]
Dec(sign, nine, digits) == [kind |-> "dec", sign |-> sign, nine |-> nine, digits |-> digits]
Half(c) == CASE c.kind = "rat" -> Rat(c.n, 2 * c.d)
             [] c.kind = "sym" -> Sym(c.s, c.n, 2 * c.d)
             [] c.kind = "dec" -> [c EXCEPT !.kind = "dechalf"]

StrangWord(c) == <<[st |-> "E", c |-> Half(c)], [st |-> "O", c |-> c], [st |-> "E", c |-> Half(c)]>>
KL == <<Dec(1, 130202483, "13020248308889008087881763"), Dec(1, 561162981, "56116298177510838456196441"),
        Dec(-1, 389474962, "38947496264484728640807860"), Dec(1, 158841906, "15884190655515560089621075"),
        Dec(-1, 395903894, "39590389413323757733623154"), Dec(1, 184539640, "18453964097831570709183254"),
        Dec(1, 258374387, "25837438768632204729397911"), Dec(1, 295011723, "29501172360931029887096624"),
        Dec(-1, 605508533, "60550853383003451169892108")>>
RECURSIVE Concat(_)
Concat(ss) == IF ss = <<>> THEN <<>> ELSE ss[1] \o Concat(Tail(ss))
Word(scheme) ==
    CASE scheme = "lie" -> <<[st |-> "E", c |-> Rat(1, 1)], [st |-> "O", c |-> Rat(1, 1)]>>
      [] scheme = "strang" -> StrangWord(Rat(1, 1))
      [] scheme = "yoshida" -> StrangWord(Sym("w1", 1, 1)) \o StrangWord(Sym("w0", 1, 1)) \o StrangWord(Sym("w1", 1, 1))
      [] scheme = "kahan_li" -> Concat([k \in 1..17 |-> StrangWord(KL[IF k <= 9 THEN k ELSE 18 - k])])
Order(scheme) == CASE scheme = "lie" -> 1 [] scheme = "strang" -> 2 [] scheme = "yoshida" -> 4 [] scheme = "kahan_li" -> 6
Schemes == {"lie", "strang", "yoshida", "kahan_li"}

\* ---- model-level checks of the words
Palindrome(w) == \A k \in 1..Len(w) : w[k] = w[Len(w) + 1 - k]
\* coefficient sums in units of 10^-9 (decimals) resp. exactly (rationals); the Yoshida symbols satisfy 2 w1 + w0 = 1
Nine(c) == CASE c.kind = "dec" -> c.sign * c.nine * 2 [] c.kind = "dechalf" -> c.sign * c.nine [] OTHER -> 0   \* doubled
StageSum9(w, st) == LET RECURSIVE go(_)
                        go(k) == IF k > Len(w) THEN 0 ELSE (IF w[k].st = st THEN Nine(w[k].c) ELSE 0) + go(k + 1)
                    IN go(1)
WordsOK ==
    /\ \A s \in Schemes \ {"lie"} : Palindrome(Word(s))
    /\ Len(Word("kahan_li")) = 51 /\ Len(Word("yoshida")) = 9
    /\ StageSum9(Word("kahan_li"), "E") - 2000000000 \in -60..60
    /\ StageSum9(Word("kahan_li"), "O") - 2000000000 \in -60..60
    /\ \A d \in 2..6 : LET bonds == 0..(d - 1)
                           ev == {b \in bonds : b % 2 = 0}
                           od == {b \in bonds : b % 2 = 1}
                       IN  ev \cup od = bonds /\ ev \cap od = {}

\* ---- islands: integer components.  herm: K_b = -i H_b with Hermitian H_b (norm preservation)
\* TTBase!Hash weighs i and j with 3 + a and 5 + t: for a - t = 2 (the single-site parts: a = 3, t = 1) it is symmetric in
\* (i, j), which made every single-site generator symmetric (a propagator applied transposed went unnoticed: seed C10_e).
\* The terms i * i * j and i break the symmetry; the replay counts the cases whose last-site generator is not symmetric
\* and fails (machinery failure) if there is none.
MEntry(seed, b, k, i, j, t) == ((Hash(seed, b, k, i, j, t) + i * i * j + 2 * i) % 3) - 1
Mat(seed, b, k, n, t) == [i \in 1..n |-> [j \in 1..n |-> <<MEntry(seed, b, k, i, j, t), 0>>]]
MatC(seed, b, k, n, t) == [i \in 1..n |-> [j \in 1..n |-> <<MEntry(seed, b, k, i, j, t), MEntry(seed + 1, b, k, j, i + 1, t)>>]]
AdjM(A) == [i \in 1..Len(A) |-> [j \in 1..Len(A) |-> CConj(A[j][i])]]
AddM(A, B) == [i \in 1..Len(A) |-> [j \in 1..Len(A) |-> CAdd(A[i][j], B[i][j])]]
MulI(A) == [i \in 1..Len(A) |-> [j \in 1..Len(A) |-> CMul(<<0, -1>>, A[i][j])]]        \* -i A
Components(c, b) ==        \* S, L (list of r matrices), M (list of r matrices) of site/bond b (0-based)
    \* share: site-dependent lists whose S and L entries are the same for every site (the caller passes one array object
    \* several times), only M differs from site to site
    LET sb == IF c.hom THEN 0 ELSE b
        sl == IF c.hom \/ ("share" \in DOMAIN c /\ c.share) THEN 0 ELSE b
    IN  IF c.herm
        THEN LET B == MatC(c.seed, sb, 1, c.n, 2)
                 Cm == MatC(c.seed, sb, 2, c.n, 3)
                 Sh == AddM(MatC(c.seed, sb, 3, c.n, 1), AdjM(MatC(c.seed, sb, 3, c.n, 1)))
                 \* imag: the Hermitian, genuinely complex components themselves (imaginary-time evolution exp(h H) with a real
                 \* step: every local generator is exactly Hermitian), otherwise -i times them (skew-Hermitian, norm preserving)
             IN  IF "imag" \in DOMAIN c /\ c.imag THEN [S |-> Sh, L |-> <<B, AdjM(B)>>, M |-> <<Cm, AdjM(Cm)>>]
                 ELSE [S |-> MulI(Sh), L |-> <<MulI(B), MulI(AdjM(B))>>, M |-> <<Cm, AdjM(Cm)>>]
        ELSE [S |-> Mat(c.seed, sl, 3, c.n, 1),
              L |-> [k \in 1..c.r |-> Mat(c.seed, sl, k, c.n, 2)],
              M |-> [k \in 1..c.r |-> Mat(c.seed, sb, k, c.n, 3)]]
\* xr: a real-valued (real dtype) initial state also for the complex generators -iH
StateCores(c) == FillCores(IF c.herm /\ ~c.xr THEN "complex" ELSE "real", c.seed + 2,
                           [rd |-> [k \in 1..c.d |-> c.n], cd |-> [k \in 1..c.d |-> 1],
                            rk |-> [k \in 1..(c.d + 1) |-> IF k = 1 \/ k = c.d + 1 THEN 1 ELSE 2]])

Configs ==
    {c \in {[d |-> d, n |-> n, r |-> r, hom |-> hom, herm |-> herm, seed |-> seed, xr |-> xr] :
        d \in 2..(IF Level = 1 THEN 3 ELSE 5), n \in {2} \cup (IF Level = 1 THEN {} ELSE {3}), r \in 1..2,
        hom \in BOOLEAN, herm \in BOOLEAN, seed \in {1, 2}, xr \in BOOLEAN} :
            (~c.herm => c.xr) /\ (c.d = 5 => c.n = 2 /\ c.r = 1 /\ c.seed = 1)}
    \cup {[d |-> d, n |-> 2, r |-> 2, hom |-> hom, herm |-> TRUE, seed |-> seed, xr |-> FALSE, imag |-> TRUE] :
            d \in {3, 4}, hom \in BOOLEAN, seed \in {1, 2}}
    \cup {[d |-> d, n |-> 2, r |-> 2, hom |-> FALSE, herm |-> FALSE, seed |-> seed, xr |-> TRUE, share |-> TRUE] :
            d \in {4, 5}, seed \in {1, 2}}
    \cup (IF Level = 1 THEN {[d |-> 4, n |-> 2, r |-> 1, hom |-> FALSE, herm |-> TRUE, seed |-> 1, xr |-> FALSE],
                              [d |-> 5, n |-> 2, r |-> 1, hom |-> TRUE, herm |-> TRUE, seed |-> 1, xr |-> TRUE],
                              [d |-> 2, n |-> 3, r |-> 2, hom |-> TRUE, herm |-> FALSE, seed |-> 1, xr |-> TRUE]} ELSE {})
Ix(c) == c.d * 3 + c.n * 5 + c.r + c.seed * 7 + (IF c.hom THEN 1 ELSE 0) + (IF c.herm THEN 2 ELSE 0) + (IF c.xr THEN 4 ELSE 0)
Init == cfg \in {c \in Configs : Ix(c) % NShards = Shard} /\ out = <<>>
Build ==
    /\ out = <<>>
    /\ out' = <<[comp |-> [b \in 1..cfg.d |-> Components(cfg, b - 1)], x0 |-> StateCores(cfg),
                 words |-> [s \in Schemes |-> Word(s)], orders |-> [s \in Schemes |-> Order(s)]]>>
    /\ UNCHANGED cfg
Next == Build
Spec == Init /\ [][Next]_vars

\* skew-Hermitian components where requested
SkewOK == (out # <<>> /\ cfg.herm /\ ~("imag" \in DOMAIN cfg /\ cfg.imag)) =>
    \A b \in 1..cfg.d : LET S == out[1].comp[b].S IN \A i \in 1..cfg.n, j \in 1..cfg.n : S[i][j] = CNeg(CConj(S[j][i]))
Inv == WordsOK /\ SkewOK

Emit == out # <<>> => PrintT("@@CASE " \o ToJson([cfg |-> cfg, isl |-> out[1]]))
=============================================================================
