---------------------------- MODULE SamplingProd ----------------------------
(***************************************************************************)
(* C20 beyond dense sizes: the sampling machine of Sampling.tla for PRODUCT *)
(* states of many qubits (the Born marginals factorise, so no enumeration  *)
(* of the 2^n basis states is needed).  Site k carries the integer          *)
(* amplitudes <<a0, a1>>; the conditional probability of bit 0 at a measured *)
(* site is a0^2 / (a0^2 + a1^2) whatever the earlier bits were.  Variates  *)
(* are u/1024 as in Sampling.tla; a draw is bit 1 iff u/1024 > P(0).        *)
(***************************************************************************)
EXTENDS TTBase, Json

CONSTANTS NQ, NSamples, Seeds, NShards, Shard
VARIABLES cfg, s, i, prefix, rows
vars == <<cfg, s, i, prefix, rows>>

H(a0, b, c) == LET a == a0 + SaltValue IN (a * 57 + b * 131 + c * 29 + a * b * 7 + b * c * 3 + 11) % 1023
Amp(seed, k) == <<1 + (H(seed, k, 1) % 3), 1 + (H(seed, k, 2) % 4)>>

Init ==
    /\ \E n \in NQ, seed \in Seeds, skip \in {0, 2} :
          /\ (n + seed + skip) % NShards = Shard
          /\ cfg = [n |-> n, amps |-> [k \in 1..n |-> Amp(seed, k)],
                    \* all sites but `skip` of them (the sites 3 and 7) are measured
                    meas |-> SelectSeq([k \in 1..n |-> k - 1], LAMBDA q : skip = 0 \/ (q # 3 /\ q # 7)),
                    u |-> [t \in 1..NSamples |-> [k \in 1..n |-> 1 + H(seed + n, t, k)]]]
    /\ s = 1 /\ i = 0 /\ prefix = <<>> /\ rows = <<>>

M == Len(cfg.meas)
Site == cfg.meas[i + 1] + 1
P0 == cfg.amps[Site][1] * cfg.amps[Site][1]
P1 == cfg.amps[Site][2] * cfg.amps[Site][2]
U == cfg.u[s][i + 1]

Draw ==
    /\ s <= NSamples /\ i < M
    /\ prefix' = Append(prefix, IF U * (P0 + P1) > 1024 * P0 THEN 1 ELSE 0)
    /\ i' = i + 1
    /\ UNCHANGED <<cfg, s, rows>>
NextSample ==
    /\ s <= NSamples /\ i = M
    /\ rows' = Append(rows, prefix)
    /\ s' = s + 1 /\ i' = 0 /\ prefix' = <<>>
    /\ UNCHANGED cfg
Next == Draw \/ NextSample
Spec == Init /\ [][Next]_vars

\* every conditional distribution is a distribution; no variate sits on a threshold
ProbOK == (s <= NSamples /\ i < M) => (P0 > 0 /\ P1 > 0)
NoTieConstraint == ~(s <= NSamples /\ i < M /\ U * (P0 + P1) = 1024 * P0)

Emit == (s = NSamples + 1) =>
    PrintT("@@CASE " \o ToJson([prod |-> TRUE, n |-> cfg.n, amps |-> cfg.amps, meas |-> cfg.meas, u |-> cfg.u, rows |-> rows]))
=============================================================================
