------------------------------ MODULE LinSolve ------------------------------
(***************************************************************************)
(* C07: islands for the ALS/MALS linear solvers.                           *)
(*                                                                         *)
(* A = G^H G + c I  with an integer (or Gaussian-integer) TT operator G is *)
(* Hermitian positive definite by construction; its TT cores are computed  *)
(* exactly with the implementation-shaped core algebra of TTBase.  The     *)
(* planted solution xs has interface matrices of full rank ("FullRank"     *)
(* cores: every right unfolding contains 3*I and an upper-triangular       *)
(* fill), b = A xs is computed exactly as TT cores.  The contract of a     *)
(* solver call (checked by the replay on the real code):                   *)
(*   - the result has the dims of b; ALS never raises a rank, MALS never   *)
(*     exceeds max_rank                                                    *)
(*   - E(x) = (x - xs)^H A (x - xs) does not increase from the guess to    *)
(*     the result and from repeats = k to repeats = k + 1                  *)
(*   - guess = xs  =>  result = xs                                         *)
(*   - guess of maximal ranks  =>  one sweep returns xs                    *)
(*   - A, b and the guess are unchanged                                    *)
(***************************************************************************)
EXTENDS TTBase, Json

CONSTANTS Level, NShards, Shard
VARIABLES cfg, out
vars == <<cfg, out>>

\* conjugate-transposed cores
AdjCores(x) == [k \in 1..Len(x) |-> [a \in 1..CoreR0(x[k]) |-> [i \in 1..CoreN(x[k]) |-> [j \in 1..CoreM(x[k]) |->
                  [b \in 1..CoreR1(x[k]) |-> CConj(x[k][a][j][i][b])]]]]]
EyeCores(dims, c) == [k \in 1..Len(dims) |-> <<[i \in 1..dims[k] |-> [j \in 1..dims[k] |->
                        <<IF i = j THEN (IF k = 1 THEN CI(c) ELSE C1) ELSE CZ>>]]>>]

\* full-rank cores of a vector-type train with the given ranks (needs rk[k] <= dims[k] * rk[k+1])
FullRankCores(dims, rk, seed, cplx) ==
    [k \in 1..Len(dims) |->
        [a \in 1..rk[k] |-> [i \in 1..dims[k] |-> <<[b \in 1..rk[k + 1] |->
            LET c == (i - 1) * rk[k + 1] + b
                f == (Hash(seed, k, a, i, 1, b) % 3) - 1
                g == IF cplx THEN (Hash(seed + 5, k, b, i, 1, a) % 3) - 1 ELSE 0
            IN  IF c <= rk[k] THEN (IF a = c THEN <<3, 0>> ELSE IF a < c THEN <<f, g>> ELSE CZ)
                ELSE <<f, g>>]>>]]]

MaxRanks(dims) ==
    [k \in 1..(Len(dims) + 1) |-> Min(Prod(SubSeq(dims, 1, k - 1)), Prod(SubSeq(dims, k, Len(dims))))]
Admissible(dims, rk) ==
    /\ rk[1] = 1 /\ rk[Len(rk)] = 1
    /\ \A k \in 1..Len(dims) : rk[k] <= dims[k] * rk[k + 1] /\ rk[k + 1] <= rk[k] * dims[k]
    /\ \A k \in 1..Len(rk) : rk[k] <= MaxRanks(dims)[k]

OpShape(dims, r) == [rd |-> dims, cd |-> dims, rk |-> [k \in 1..(Len(dims) + 1) |-> IF k = 1 \/ k = Len(dims) + 1 THEN 1 ELSE r]]

Island(c) ==
    \* opreal: real operator and real guess with a complex solution / right-hand side (mixed dtypes)
    LET G == FillCores(IF c.cplx /\ ~c.opreal THEN "complex" ELSE "real", c.seed, OpShape(c.dims, c.rg))
        A == AddCores(MatMulCores(AdjCores(G), G), EyeCores(c.dims, c.shift))
        xs == FullRankCores(c.dims, c.rx, c.seed + 1, c.cplx)
        b == MatMulCores(A, xs)
        x0 == IF c.guess = "exact" THEN xs
              ELSE IF c.guess = "full" THEN FullRankCores(c.dims, MaxRanks(c.dims), c.seed + 2, c.cplx /\ ~c.opreal)
              ELSE FullRankCores(c.dims, c.r0, c.seed + 3, FALSE)
    IN  [A |-> A, xs |-> xs, b |-> b, x0 |-> x0]

RankProfiles(dims) == {rk \in [1..(Len(dims) + 1) -> 1..3] : Admissible(dims, rk)}
DimsSet == UNION {[1..d -> (IF Level = 1 THEN {2} ELSE {2, 3})] : d \in 1..(IF Level = 1 THEN 3 ELSE 4)}
    \cup (IF Level = 1 THEN {<<2, 3>>, <<3, 2, 2>>, <<2, 2, 2, 2>>, <<2, 1, 2>>, <<1, 2>>} ELSE {<<2, 1, 2>>, <<1, 2, 2>>, <<2, 2, 1>>})
Configs0 ==
    UNION {UNION {
        {[dims |-> dims, rg |-> rg, shift |-> 2, seed |-> seed, cplx |-> cplx, rx |-> rx, guess |-> "exact", r0 |-> rx] :
            seed \in {1}, cplx \in BOOLEAN}
        \cup {[dims |-> dims, rg |-> rg, shift |-> 2, seed |-> seed, cplx |-> cplx, rx |-> rx, guess |-> "full", r0 |-> MaxRanks(dims)] :
            seed \in {2}, cplx \in BOOLEAN}
        \cup {[dims |-> dims, rg |-> rg, shift |-> 2, seed |-> seed, cplx |-> cplx, rx |-> rx, guess |-> "low", r0 |-> r0] :
            seed \in {3}, cplx \in BOOLEAN, r0 \in {r \in RankProfiles(dims) : \A k \in 1..Len(r) : r[k] <= rx[k]}}
        : rx \in RankProfiles(dims)} : dims \in DimsSet, rg \in {1, 2}}
\* order 4 in the quick tier (interior MALS super-cores with both outer ranks > 1) only with a few rank profiles
Keep(c) == Level > 1 \/ Len(c.dims) < 4 \/
           (c.rx \in {MaxRanks(c.dims), <<1, 2, 2, 2, 1>>} /\ c.r0 \in {MaxRanks(c.dims), <<1, 2, 2, 2, 1>>} /\ c.rg = 2)
Configs == {c \in ({c @@ [opreal |-> o] : c \in Configs0, o \in BOOLEAN} \ {c @@ [opreal |-> TRUE] : c \in {k \in Configs0 : ~k.cplx}}) : Keep(c)}

CfgIx(c) == ISum(c.dims) * 3 + ISum(c.rx) * 5 + ISum(c.r0) * 7 + c.rg + c.seed + (IF c.cplx THEN 1 ELSE 0) + Len(c.guess) + (IF c.opreal THEN 2 ELSE 0)
Init == cfg \in {c \in Configs : CfgIx(c) % NShards = Shard} /\ out = <<>>
Build == out = <<>> /\ out' = <<Island(cfg)>> /\ UNCHANGED cfg
Next == Build
Spec == Init /\ [][Next]_vars

\* model-level checks of the island (small instances only: dense products are expensive)
Small == Prod(cfg.dims) <= 8
IslandOK ==
    (out # <<>> /\ Small) =>
        LET A == FullOf(out[1].A)
            N == Prod(cfg.dims)
        IN  /\ FullOf(out[1].b) = DMatMul(A, FullOf(out[1].xs))                      \* b = A xs
            /\ \A r \in 1..N, c \in 1..N : A.v[(r - 1) * N + c] = CConj(A.v[(c - 1) * N + r])   \* A Hermitian

Emit == out # <<>> => PrintT("@@CASE " \o ToJson([cfg |-> cfg, isl |-> out[1], maxranks |-> MaxRanks(cfg.dims)]))
=============================================================================
