--------------------------- MODULE Trace_Adaptive ---------------------------
(***************************************************************************)
(* Code -> spec: validates the accepted time points recorded from          *)
(* ode.adaptive_step_size against the guard of Adaptive!Accept             *)
(* (cur < new <= T), one state per accepted time.  Times are encoded as    *)
(* two 20-bit limbs <<hi, lo>>, i.e. t = (hi + lo / 2^20) / 2^20, so that   *)
(* comparisons are exact integer comparisons in TLC.                       *)
(***************************************************************************)
EXTENDS Integers, Sequences, TLC, Json, IOUtils

Traces == ndJsonDeserialize(IOEnv.TRACE_FILE)
VARIABLES tid, l, cur, bad
tvars == <<tid, l, cur, bad>>
Lt(a, b) == a[1] < b[1] \/ (a[1] = b[1] /\ a[2] < b[2])
Le(a, b) == a = b \/ Lt(a, b)
Tr == Traces[tid]
TInit == tid \in 1..Len(Traces) /\ l = 1 /\ cur = <<0, 0>> /\ bad = "" /\ TLCSet(tid, 0)
\* event l is the l-th accepted time; the first must be 0; then exactly the guard of Accept:  cur < new <= T
TNext ==
    /\ bad = "" /\ l <= Len(Tr.times)
    /\ LET ev == Tr.times[l]
       IN  /\ cur' = ev
           /\ bad' = IF l = 1 THEN (IF ev = <<0, 0>> THEN "" ELSE "first")
                     ELSE IF ~Lt(cur, ev) THEN "not_increasing"
                     ELSE IF ~Le(ev, Tr.tend) THEN "beyond_end"
                     ELSE ""
    /\ l' = l + 1 /\ tid' = tid
TraceSpec == TInit /\ [][TNext]_tvars
TMark == TLCSet(tid, IF bad # "" THEN 0 - (l - 1) ELSE l - 1) /\ (bad # "" => PrintT(<<"@@BAD", Tr.tid, bad>>))
TPost == \A k \in 1..Len(Traces) :
            \/ (TLCGet(k) = Len(Traces[k].times) /\ Traces[k].nsol = Len(Traces[k].times))
            \/ PrintT(<<"@@REJECT", Traces[k].tid, TLCGet(k)>>)
=============================================================================
