-------------------------------- MODULE Sweep -------------------------------
(***************************************************************************)
(* The environment-cache protocol shared by the alternating solvers and    *)
(* the TDVP integrators (sle.als/mals, evp.als, ode.tdvp1site/tdvp2site/   *)
(* tdvp, regression.arr).                                                  *)
(*                                                                         *)
(* State: a version counter ver[i] per core (bumped whenever the core is   *)
(* rewritten), left environments L[i] and right environments R[i], each    *)
(* either undefined or the tuple of core versions it was built from, the   *)
(* sweep position and direction.  Actions (the helper calls of the code):  *)
(*   BuildL(i)   L[i] := built from cores 0..i-1 (needs L[i-1])            *)
(*   BuildR(i)   R[i] := built from cores i+1..D-1 (needs R[i+1])          *)
(*   One(i,dir)  one-site micro problem at core i: needs L[i], R[i];       *)
(*               rewrites core i and pushes the remainder into the next    *)
(*               core in sweep direction                                   *)
(*   Two(i)      two-site micro problem at cores i,i+1: needs L[i],        *)
(*               R[i+1]; rewrites both cores                               *)
(* Invariants checked for every driver, order and branch choice:           *)
(*   EnvDefined  a micro problem never reads an undefined environment      *)
(*   EnvFresh    ... nor one built from outdated cores                     *)
(* The drivers are transcribed from the code, including the data dependent *)
(* branch of the hybrid TDVP (nondeterministic here).                      *)
(***************************************************************************)
EXTENDS Integers, Sequences, FiniteSets, TLC

CONSTANTS D,          \* order (number of cores), >= 1
          Driver,     \* "als" | "mals" | "evp" | "tdvp1" | "tdvp2" | "hybrid" | "arr"
          Repeats

VARIABLES ver,        \* [0..D-1 -> Nat]
          L, R,       \* [0..D-1 -> <<>> (undefined) or a function from the cores it depends on to their versions]
          pc, i, it,  \* program counter, core index, iteration
          err         \* "" or the violated requirement
vars == <<ver, L, R, pc, i, it, err>>

Undef == [def |-> FALSE, snap |-> <<>>]
Env(S) == [def |-> TRUE, snap |-> [c \in S |-> ver[c]]]
Cores == 0..(D - 1)
LeftOf(k) == 0..(k - 1)
RightOf(k) == (k + 1)..(D - 1)

DoBuildL(k) == L' = [L EXCEPT ![k] = IF k = 0 \/ L[k - 1].def THEN Env(LeftOf(k)) ELSE Undef]
DoBuildR(k) == R' = [R EXCEPT ![k] = IF k = D - 1 \/ R[k + 1].def THEN Env(RightOf(k)) ELSE Undef]

FreshL(k) == L[k].def /\ L[k] = Env(LeftOf(k))
FreshR(k) == R[k].def /\ R[k] = Env(RightOf(k))
Need(k, kr) ==      \* requirement of a micro problem that reads L[k] and R[kr]
    IF k \notin Cores \/ kr \notin Cores THEN "index"
    ELSE IF ~L[k].def \/ ~R[kr].def THEN "undefined"
    ELSE IF ~FreshL(k) \/ ~FreshR(kr) THEN "stale"
    ELSE ""
Bump(S) == ver' = [c \in Cores |-> IF c \in S THEN ver[c] + 1 ELSE ver[c]]
Flag(e) == err' = IF err # "" THEN err ELSE e

Init ==
    /\ ver = [c \in Cores |-> 0]
    /\ L = [c \in Cores |-> Undef] /\ R = [c \in Cores |-> Undef]
    /\ pc = "initR" /\ i = D - 1 /\ it = 1 /\ err = ""

\* ---- initial construction of the right environments (all drivers; mals/arr stop at index 1)
InitR ==
    /\ pc = "initR"
    /\ LET lowest == IF Driver \in {"mals"} THEN 1 ELSE 0
       IN  IF i >= lowest
           THEN /\ DoBuildR(i) /\ i' = i - 1 /\ UNCHANGED <<ver, L, pc, it, err>>
           ELSE /\ pc' = "fwd" /\ i' = 0 /\ UNCHANGED <<ver, L, R, it, err>>

\* ---- one-site drivers: als, evp, tdvp1 (forward: BuildL(i), micro at i unless it is the last core for als/evp)
OneSiteFwd ==
    /\ pc = "fwd" /\ Driver \in {"als", "evp", "tdvp1", "arr"}
    /\ IF i <= D - 1
       THEN /\ DoBuildL(i)
            /\ IF Driver = "tdvp1" \/ i < D - 1
               THEN /\ Flag(IF ~L'[i].def THEN "undefined" ELSE IF ~R[i].def THEN "undefined"
                             ELSE IF R[i] # Env(RightOf(i)) THEN "stale" ELSE "")
                    /\ Bump(IF i < D - 1 THEN {i, i + 1} ELSE {i})
               ELSE UNCHANGED <<ver, err>>
            /\ i' = i + 1 /\ UNCHANGED <<R, pc, it>>
       ELSE /\ pc' = "bwd" /\ i' = D - 1 /\ UNCHANGED <<ver, L, R, it, err>>
OneSiteBwd ==
    /\ pc = "bwd" /\ Driver \in {"als", "evp", "tdvp1", "arr"}
    /\ IF i >= 0
       THEN /\ DoBuildR(i)
            /\ Flag(IF ~R'[i].def \/ ~L[i].def THEN "undefined" ELSE IF L[i] # Env(LeftOf(i)) THEN "stale" ELSE "")
            /\ Bump(IF i > 0 THEN {i, i - 1} ELSE {i})
            /\ i' = i - 1 /\ UNCHANGED <<L, pc, it>>
       ELSE /\ (IF it < Repeats THEN pc' = "fwd" /\ it' = it + 1 ELSE pc' = "done" /\ it' = it)
            /\ i' = 0 /\ UNCHANGED <<ver, L, R, err>>

\* ---- two-site drivers: mals, tdvp2
TwoSiteFwd ==
    /\ pc = "fwd" /\ Driver \in {"mals", "tdvp2"}
    /\ IF i <= D - 2
       THEN /\ DoBuildL(i)
            /\ IF Driver = "tdvp2" \/ i < D - 2
               THEN /\ Flag(IF ~L'[i].def \/ ~R[i + 1].def THEN "undefined"
                             ELSE IF R[i + 1] # Env(RightOf(i + 1)) THEN "stale" ELSE "")
                    /\ Bump({i, i + 1})
               ELSE UNCHANGED <<ver, err>>
            /\ i' = i + 1 /\ UNCHANGED <<R, pc, it>>
       ELSE /\ pc' = "bwd" /\ i' = D - 2 /\ UNCHANGED <<ver, L, R, it, err>>
TwoSiteBwd ==
    /\ pc = "bwd" /\ Driver \in {"mals", "tdvp2"}
    /\ IF i >= 0
       THEN /\ DoBuildR(i + 1)
            /\ Flag(IF ~R'[i + 1].def \/ ~L[i].def THEN "undefined" ELSE IF L[i] # Env(LeftOf(i)) THEN "stale" ELSE "")
            /\ Bump({i, i + 1})
            /\ i' = i - 1 /\ UNCHANGED <<L, pc, it>>
       ELSE /\ (IF it < Repeats THEN pc' = "fwd" /\ it' = it + 1 ELSE pc' = "done" /\ it' = it)
            /\ i' = 0 /\ UNCHANGED <<ver, L, R, err>>

\* ---- hybrid TDVP (ode.tdvp): per bond a one-site or a two-site update, decided by the current ranks
\* (nondeterministic here).  Transcribed from the code: the forward sweep stops at i = D-2.
HybridFwd ==
    /\ pc = "fwd" /\ Driver = "hybrid"
    /\ IF i < D - 1
       THEN /\ DoBuildL(i)
            /\ \E two \in BOOLEAN :
                 IF two
                 THEN /\ Flag(IF ~L'[i].def \/ ~R[i + 1].def THEN "undefined"
                               ELSE IF R[i + 1] # Env(RightOf(i + 1)) THEN "stale" ELSE "")
                      /\ Bump({i, i + 1})
                 ELSE /\ Flag(IF ~L'[i].def \/ ~R[i].def THEN "undefined"
                               ELSE IF R[i] # Env(RightOf(i)) THEN "stale" ELSE "")
                      /\ Bump({i, i + 1})
            /\ i' = i + 1 /\ UNCHANGED <<R, pc, it>>
       ELSE /\ pc' = "bwd" /\ UNCHANGED <<ver, L, R, i, it, err>>
HybridBwd ==
    /\ pc = "bwd" /\ Driver = "hybrid"
    /\ IF i > 0
       THEN /\ DoBuildR(i)
            /\ \E two \in BOOLEAN :
                 IF two
                 THEN /\ Flag(IF ~L[i - 1].def \/ ~R'[i].def THEN "undefined"
                               ELSE IF L[i - 1] # Env(LeftOf(i - 1)) THEN "stale" ELSE "")
                      /\ Bump({i - 1, i})
                 ELSE /\ Flag(IF ~L[i].def \/ ~R'[i].def THEN "undefined"
                               ELSE IF L[i] # Env(LeftOf(i)) THEN "stale" ELSE "")
                      /\ Bump({i, i - 1})
            /\ i' = i - 1 /\ UNCHANGED <<L, pc, it>>
       ELSE /\ (IF it < Repeats THEN pc' = "fwd" /\ it' = it + 1 ELSE pc' = "done" /\ it' = it)
            /\ UNCHANGED <<ver, L, R, i, err>>

Next == InitR \/ OneSiteFwd \/ OneSiteBwd \/ TwoSiteFwd \/ TwoSiteBwd \/ HybridFwd \/ HybridBwd
Spec == Init /\ [][Next]_vars

EnvDefined == err # "undefined" /\ err # "index"
EnvFresh == err # "stale"
Bounded == \A c \in Cores : ver[c] <= 4 * Repeats + 2
=============================================================================
