----------------------------- MODULE Transform ------------------------------
(***************************************************************************)
(* C15: transformed data tensors.                                          *)
(*   Psi[i_1, ..., i_q, j] = PROD_k  L[k][i_k][j]                          *)
(* where the leaf L[k][i][j] is a basis function evaluated on snapshot j.  *)
(* The three constructions differ only in what the leaves are:             *)
(*   general          mode k <-> function list k, leaf = phi[k][i](x_j)    *)
(*   coordinate-major mode k <-> coordinate k,   leaf = phi[i](x[k, j])    *)
(*   function-major   mode k <-> function k,     leaf = phi[k](x[i, j])    *)
(*                    (with add_one: index 0 is the constant 1)            *)
(* The specification emits the leaves as expression trees with their       *)
(* evaluation points and, when every function is an integer polynomial or  *)
(* an indicator, the exact integer tensor computed by TLC.                 *)
(* Gram(x1, x2)[j1, j2] = PROD_k SUM_i L1[k][i][j1] * L2[k][i][j2].        *)
(***************************************************************************)
EXTENDS CalcBase, Json

CONSTANTS Level, NShards, Shard
VARIABLES cfg, out
vars == <<cfg, out>>

RECURSIVE ProdS(_)
ProdS(s) == IF s = <<>> THEN 1 ELSE s[1] * ProdS(Tail(s))
RECURSIVE SumS(_)
SumS(s) == IF s = <<>> THEN 0 ELSE s[1] + SumS(Tail(s))
RECURSIVE UnflatT(_, _)
UnflatT(k, dims) == IF dims = <<>> THEN <<>> ELSE LET n == Len(dims) IN Append(UnflatT(k \div dims[n], SubSeq(dims, 1, n - 1)), k % dims[n])
RECURSIVE IPow(_, _)
IPow(a, p) == IF p = 0 THEN 1 ELSE a * IPow(a, p - 1)

\* exact evaluation of integer expressions at an integer point
RECURSIVE EvalI(_, _)
EvalI(e, x) ==
    CASE e.k = "c" -> e.n
      [] e.k = "x" -> x[e.i + 1]
      [] e.k = "+" -> EvalI(e.a, x) + EvalI(e.b, x)
      [] e.k = "*" -> EvalI(e.a, x) * EvalI(e.b, x)
      [] e.k = "^" -> IPow(EvalI(e.a, x), e.p)
      [] e.k = "ind" -> IF e.lo[1] <= x[e.i + 1] /\ x[e.i + 1] < e.hi[1] THEN 1 ELSE 0
ExactFam(f) == f.fam \in {"constant", "identity", "indicator"} \/ (f.fam = "monomial" /\ f.pre[2] = 1)

\* data
Data(seed, d, m) == LET s == seed + SaltValue IN [i \in 1..d |-> [j \in 1..m |-> ((s * 5 + i * 3 + j * 7 + i * j * s) % 5) - 2]]
Snap(x, j) == [i \in 1..Len(x) |-> x[i][j]]

\* mode catalogues
Const(c) == [fam |-> "constant", idx |-> c]
Id(c) == [fam |-> "identity", idx |-> c]
Mono(c, e, p) == [fam |-> "monomial", idx |-> c, exp |-> e, pre |-> p]
IndF(c, lo, hi) == [fam |-> "indicator", idx |-> c, lo |-> <<lo, 1>>, hi |-> <<hi, 1>>]
SinF(c, a) == [fam |-> "sin", idx |-> c, alpha |-> a]
CosF(c, a) == [fam |-> "cos", idx |-> c, alpha |-> a]
GaussF(c, mu, v) == [fam |-> "gauss", idx |-> c, mean |-> mu, var |-> v]
ModeCat(d) ==
    UNION {{<<Const(c), Id(c), Mono(c, 2, <<1, 1>>)>>, <<Id(c)>>, <<IndF(c, -3, 0), IndF(c, 0, 3)>>,
            <<Mono(c, 3, <<-2, 1>>), Const(c)>>,
            \* overlapping / nested indicators only: a snapshot pair shares several active functions, the mode's Gram factor
            \* is a count (not a logical "or")
            <<IndF(c, -3, 3), IndF(c, -1, 2), IndF(c, 0, 3)>>} : c \in 0..(d - 1)}
    \cup (IF Level >= 2 THEN {<<SinF(0, <<1, 1>>), CosF(d - 1, <<1, 2>>), GaussF(0, <<0, 1>>, <<1, 1>>)>>} ELSE {<<SinF(0, <<1, 1>>), Const(0)>>})
ScalarCat ==
    {<<Const(0), Id(0), Mono(0, 2, <<1, 1>>)>>, <<Id(0), Mono(0, 3, <<1, 1>>)>>, <<Id(0)>>, <<SinF(0, <<1, 1>>), CosF(0, <<1, 1>>)>>}

\* leaves: L[k][i][j] = [e |-> expression, pt |-> integer point]
LeavesGeneral(x, basis) ==
    [k \in 1..Len(basis) |-> [i \in 1..Len(basis[k]) |-> [j \in 1..Len(x[1]) |->
        [e |-> FamilyExpr(basis[k][i]), pt |-> Snap(x, j)]]]]
LeavesCM(x, phi) ==
    [k \in 1..Len(x) |-> [i \in 1..Len(phi) |-> [j \in 1..Len(x[1]) |-> [e |-> FamilyExpr(phi[i]), pt |-> <<x[k][j]>>]]]]
LeavesFM(x, phi, addone) ==
    LET off == IF addone THEN 1 ELSE 0
    IN  [k \in 1..Len(phi) |-> [i \in 1..(Len(x) + off) |-> [j \in 1..Len(x[1]) |->
            IF addone /\ i = 1 THEN [e |-> C(1, 1), pt |-> <<0>>] ELSE [e |-> FamilyExpr(phi[k]), pt |-> <<x[i - off][j]>>]]]]

\* exact tensor from integer leaves: flat row-major over (i_1..i_q, j)
PsiExact(L) ==
    LET q == Len(L)
        m == Len(L[1][1])
        dims == [k \in 1..q |-> Len(L[k])] \o <<m>>
        N == ProdS(dims)
    IN  [dims |-> dims,
         v |-> [n \in 1..N |-> LET I == UnflatT(n - 1, dims)
                               IN  ProdS([k \in 1..q |-> EvalI(L[k][I[k] + 1][I[q + 1] + 1].e, L[k][I[k] + 1][I[q + 1] + 1].pt)])]]
GramExact(L1, L2) ==
    [j1 \in 1..Len(L1[1][1]) |-> [j2 \in 1..Len(L2[1][1]) |->
        ProdS([k \in 1..Len(L1) |-> SumS([i \in 1..Len(L1[k]) |->
            EvalI(L1[k][i][j1].e, L1[k][i][j1].pt) * EvalI(L2[k][i][j2].e, L2[k][i][j2].pt)])])]]

AllExact(fs) == \A k \in 1..Len(fs) : ExactFam(fs[k])

MaxP == IF Level = 1 THEN 2 ELSE 3
Configs ==
    UNION {{[layout |-> "general", d |-> d, m |-> m, seed |-> seed, basis |-> b] :
               m \in 1..(IF Level = 1 THEN 3 ELSE 4), seed \in 1..2, b \in UNION {[1..p -> ModeCat(d)] : p \in 1..MaxP}} : d \in 1..2}
    \cup {[layout |-> "general", d |-> 3, m |-> m, seed |-> 3, basis |-> b] :
        m \in {2, 4}, b \in [1..3 -> {<<Const(0), Id(0)>>, <<Id(1), Mono(2, 2, <<1, 1>>)>>, <<IndF(2, -3, 0), IndF(2, 0, 3), Const(1)>>}]}
    \cup {[layout |-> "cm", d |-> d, m |-> m, seed |-> seed, phi |-> phi] :
        d \in 1..3, m \in 1..3, seed \in 1..2, phi \in ScalarCat}
    \cup {[layout |-> "fm", d |-> d, m |-> m, seed |-> seed, phi |-> ph, addone |-> ao] :
        d \in 1..3, m \in 1..3, seed \in 1..2, ao \in BOOLEAN,
        ph \in {<<Id(0)>>, <<Id(0), Mono(0, 2, <<1, 1>>)>>, <<Mono(0, 2, <<1, 1>>), Id(0), SinF(0, <<1, 1>>)>>}}
    \cup UNION {{[layout |-> "gram", d |-> d, m |-> m, m2 |-> m2, seed |-> seed, basis |-> b] :
                    m \in 1..3, m2 \in 1..2, seed \in 1..2, b \in UNION {[1..p -> ModeCat(d)] : p \in 1..2}} : d \in 1..2}

CfgIx(c) == Len(c.layout) + c.d * 3 + c.m * 5 + c.seed * 7
            + (IF "basis" \in DOMAIN c THEN Len(c.basis) * 11 + Len(c.basis[1]) * 13 + c.basis[1][1].idx ELSE Len(c.phi))
Init == cfg \in {c \in Configs : CfgIx(c) % NShards = Shard} /\ out = <<>>

Result(c) ==
    LET x == Data(c.seed, c.d, c.m)
    IN  CASE c.layout = "general" ->
              LET L == LeavesGeneral(x, c.basis)
                  ex == \A k \in 1..Len(c.basis) : AllExact(c.basis[k])
              IN  [x |-> x, leaves |-> L, exact |-> ex, psi |-> IF ex THEN PsiExact(L) ELSE [dims |-> <<>>, v |-> <<>>]]
          [] c.layout = "cm" ->
              LET L == LeavesCM(x, c.phi)
                  ex == AllExact(c.phi)
              IN  [x |-> x, leaves |-> L, exact |-> ex, psi |-> IF ex THEN PsiExact(L) ELSE [dims |-> <<>>, v |-> <<>>]]
          [] c.layout = "fm" ->
              LET L == LeavesFM(x, c.phi, c.addone)
                  ex == AllExact(c.phi)
              IN  [x |-> x, leaves |-> L, exact |-> ex, psi |-> IF ex THEN PsiExact(L) ELSE [dims |-> <<>>, v |-> <<>>]]
          [] c.layout = "gram" ->
              LET x2 == Data(c.seed + 3, c.d, c.m2)
                  L1 == LeavesGeneral(x, c.basis)
                  L2 == LeavesGeneral(x2, c.basis)
                  ex == \A k \in 1..Len(c.basis) : AllExact(c.basis[k])
              IN  [x |-> x, x2 |-> x2, leaves |-> L1, leaves2 |-> L2, exact |-> ex,
                   gram |-> IF ex THEN GramExact(L1, L2) ELSE <<>>]

Build == out = <<>> /\ out' = <<Result(cfg)>> /\ UNCHANGED cfg
Next == Build
Spec == Init /\ [][Next]_vars

\* model-level: the exact tensor has one column per snapshot and the Gram matrix of a data set with itself is symmetric
Sane == out # <<>> => (cfg.layout # "gram" /\ out[1].exact => out[1].psi.dims[Len(out[1].psi.dims)] = cfg.m)

Emit == out # <<>> => PrintT("@@CASE " \o ToJson([cfg |-> cfg, expect |-> out[1]]))
=============================================================================
