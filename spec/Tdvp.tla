-------------------------------- MODULE Tdvp --------------------------------
(***************************************************************************)
(* C11: islands and contracts for the TDVP integrators and the Krylov      *)
(* propagator.  Hermitian H = G + G^H or G^H G + 2 I with exact integer    *)
(* TT cores (EigSolve!HermCores); initial states with full-rank interfaces *)
(* at every admissible rank profile (the replay right-orthonormalises and  *)
(* normalises them: the algorithms start from a right-canonical state).    *)
(* Contracts (checked by the replay):                                      *)
(*   - the returned list is the initial state followed by one state per    *)
(*     step; operator and initial state keep their value                   *)
(*   - maximal ranks  =>  x_k = exp(-i k h H) x_0   (tdvp1site, tdvp2site, *)
(*     tdvp; step h = 2^-e with |h H| <= 1)                                *)
(*   - tdvp1site conserves norm and energy at every rank profile           *)
(*   - krylov with dimension = dimension of the state space is exact       *)
(* The sweep protocol of the three drivers is model-checked in Sweep.tla   *)
(* (the hybrid driver violates EnvDefined: known finding).                 *)
(***************************************************************************)
EXTENDS EigSolve

TdvpIsland(c) ==
    LET G == FillCores(IF c.cplx THEN "complex" ELSE "real", c.seed, OpShape(c.dims, c.rg))
    \* rg = 2: real-valued initial states also for complex Hamiltonians (mixed dtypes)
    IN  [H |-> HermCores(c.kind, G, c.dims), x0 |-> FullRankCores(c.dims, c.r0, c.seed + 3, c.cplx /\ c.rg = 1)]

\* Weakly entangled states of maximal ranks under a non-entangling Hamiltonian: the Schmidt values stay at
\* 10^-7 relative (between a truncation threshold 10^-12 and its square root), so a threshold applied to anything
\* but sigma_k / sigma_1 changes the result although the ranks are maximal and nothing may be cut.
LocalHerm(seed, k) == <<<<CI(1 + ((seed + k) % 3)), CI(((seed * 2 + k) % 3) - 1)>>, <<CI(((seed * 2 + k) % 3) - 1), CI(0 - 1 - ((seed + 2 * k) % 2))>>>>
Eye2 == <<<<C1, CZ>>, <<CZ, C1>>>>
RankOneOp(mats) == [k \in 1..Len(mats) |-> <<[i \in 1..2 |-> [j \in 1..2 |-> <<mats[k][i][j]>>]]>>]
RECURSIVE LocalSumFrom(_, _, _)
LocalSumFrom(d, seed, i) ==
    LET term == RankOneOp([k \in 1..d |-> IF k = i THEN LocalHerm(seed, i) ELSE Eye2])
    IN  IF i = d THEN term ELSE AddCores(term, LocalSumFrom(d, seed, i + 1))
\* 10^7 * (product state) + (full-rank perturbation): first core of the product part carries the factor
WeakCores(dims, seed) ==
    LET d == Len(dims)
        prod == [k \in 1..d |-> <<[i \in 1..dims[k] |-> <<<<CI((IF k = 1 THEN 10000000 ELSE 1) * (1 + ((seed + i + k) % 2)))>>>>]>>]
    IN  AddCores(prod, FullRankCores(dims, MaxRanks(dims), seed + 3, FALSE))
WeakConfigs == {[weak |-> TRUE, dims |-> [k \in 1..d |-> 2], seed |-> seed, e |-> 3, steps |-> 2] : d \in 2..4, seed \in {1, 2}}
WeakIsland(c) == [H |-> LocalSumFrom(Len(c.dims), c.seed, 1), x0 |-> WeakCores(c.dims, c.seed)]

\* Hopping chain  H = sum_i (s+_i s-_{i+1} + s-_i s+_{i+1})  (number conserving, entangling).  The replay starts from a
\* basis state stored with maximal ranks (zero padding, right-orthonormalised): the padded bond directions carry no weight
\* and H does not populate them at once, yet at maximal ranks the projector is the identity and nothing may be dropped.
SPlus == <<<<CZ, C1>>, <<CZ, CZ>>>>
SMinus == <<<<CZ, CZ>>, <<C1, CZ>>>>
HopTerm(d, i, P, Q) == RankOneOp([k \in 1..d |-> IF k = i THEN P ELSE IF k = i + 1 THEN Q ELSE Eye2])
RECURSIVE HopFrom(_, _)
HopFrom(d, i) ==
    LET two == AddCores(HopTerm(d, i, SPlus, SMinus), HopTerm(d, i, SMinus, SPlus))
    IN  IF i = d - 1 THEN two ELSE AddCores(two, HopFrom(d, i + 1))
HopConfigs == {[hop |-> TRUE, dims |-> [k \in 1..d |-> 2], site |-> st, cplx |-> FALSE, e |-> 4, steps |-> 3] :
                  d \in (IF Level = 1 THEN {3, 4} ELSE {3, 4, 5, 6}), st \in {1, 2}}
HopIsland(c) == [H |-> HopFrom(Len(c.dims), 1)]

\* size-1 modes give rank-1 bonds also at maximal ranks (1x1 bond matrices in the one-site scheme)
TdvpDims == IF Level = 1 THEN {<<2>>, <<3>>, <<2, 2>>, <<2, 2, 2>>, <<3, 2>>, <<1, 2, 2>>, <<2, 2, 1>>}
            ELSE {<<2>>, <<2, 2>>, <<2, 2, 2>>, <<3, 2>>, <<2, 3, 2>>, <<2, 2, 2, 2>>, <<1, 2, 2>>, <<2, 3, 1>>, <<2, 1, 2>>, <<1, 3, 2, 1>>}
TdvpConfigs ==
    UNION {{[dims |-> dims, rg |-> rg, kind |-> kd[1], cplx |-> cplx, seed |-> seed, r0 |-> r0, e |-> kd[2], steps |-> n] :
              rg \in {1, 2}, kd \in {<<"ind", 6>>, <<"pd", 9>>}, cplx \in BOOLEAN, seed \in {1}, r0 \in RankProfiles(dims),
              n \in {1, 3}} : dims \in TdvpDims}
TdvpIx(c) == ISum(c.dims) * 3 + ISum(c.r0) * 5 + c.rg + c.steps * 7 + (IF c.cplx THEN 1 ELSE 0) + Len(c.kind)
TInit == cfg \in ({c \in TdvpConfigs : TdvpIx(c) % NShards = Shard} \cup {c \in WeakConfigs : (Len(c.dims) + c.seed) % NShards = Shard}
                  \cup {c \in HopConfigs : (Len(c.dims) + c.site) % NShards = Shard}) /\ out = <<>>
TBuild == out = <<>> /\ out' = <<IF "weak" \in DOMAIN cfg THEN WeakIsland(cfg) ELSE IF "hop" \in DOMAIN cfg THEN HopIsland(cfg)
                                 ELSE TdvpIsland(cfg)>> /\ UNCHANGED cfg
TNext == TBuild
TEmit == out # <<>> => PrintT("@@CASE " \o ToJson([cfg |-> cfg, isl |-> out[1], maxranks |-> MaxRanks(cfg.dims)]))
=============================================================================
