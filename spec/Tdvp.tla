-------------------------------- MODULE Tdvp --------------------------------
(***************************************************************************)
(* C11: islands and contracts for the TDVP integrators and the Krylov      *)
(* propagator.  Hermitian H = G + G^H or G^H G + 2 I with exact integer    *)
(* TT cores (EigSolve!HermCores); initial states with full-rank interfaces *)
(* at every admissible rank profile (the replay right-orthonormalises and  *)
(* normalises them: the algorithms start from a right-canonical state).    *)
(* Contracts (checked by the replay):                                      *)
(*   - the returned list is the initial state followed by one state per    *)
(*     step; operator and initial state keep their value                   *)
(*   - maximal ranks  =>  x_k = exp(-i k h H) x_0   (tdvp1site, tdvp2site, *)
(*     tdvp; step h = 2^-e with |h H| <= 1)                                *)
(*   - tdvp1site conserves norm and energy at every rank profile           *)
(*   - krylov with dimension = dimension of the state space is exact       *)
(* The sweep protocol of the three drivers is model-checked in Sweep.tla   *)
(* (the hybrid driver violates EnvDefined: known finding).                 *)
(***************************************************************************)
EXTENDS EigSolve

TdvpIsland(c) ==
    LET G == FillCores(IF c.cplx THEN "complex" ELSE "real", c.seed, OpShape(c.dims, c.rg))
    IN  [H |-> HermCores(c.kind, G, c.dims), x0 |-> FullRankCores(c.dims, c.r0, c.seed + 3, c.cplx)]

TdvpDims == IF Level = 1 THEN {<<2, 2>>, <<2, 2, 2>>, <<3, 2>>} ELSE {<<2>>, <<2, 2>>, <<2, 2, 2>>, <<3, 2>>, <<2, 3, 2>>, <<2, 2, 2, 2>>}
TdvpConfigs ==
    UNION {{[dims |-> dims, rg |-> rg, kind |-> kd[1], cplx |-> cplx, seed |-> seed, r0 |-> r0, e |-> kd[2], steps |-> n] :
              rg \in {1, 2}, kd \in {<<"ind", 6>>, <<"pd", 9>>}, cplx \in BOOLEAN, seed \in {1}, r0 \in RankProfiles(dims),
              n \in {1, 3}} : dims \in TdvpDims}
TdvpIx(c) == ISum(c.dims) * 3 + ISum(c.r0) * 5 + c.rg + c.steps * 7 + (IF c.cplx THEN 1 ELSE 0) + Len(c.kind)
TInit == cfg \in {c \in TdvpConfigs : TdvpIx(c) % NShards = Shard} /\ out = <<>>
TBuild == out = <<>> /\ out' = <<TdvpIsland(cfg)>> /\ UNCHANGED cfg
TNext == TBuild
TEmit == out # <<>> => PrintT("@@CASE " \o ToJson([cfg |-> cfg, isl |-> out[1], maxranks |-> MaxRanks(cfg.dims)]))
=============================================================================
