-------------------------------- MODULE Edmd --------------------------------
(***************************************************************************)
(* C18: tensor-based EDMD (AMUSEt).                                        *)
(* For a data matrix, a product basis (leaves of Transform.tla) and a pair *)
(* of snapshot index sets (X, Y):                                          *)
(*   eigenvalues = Re( non-zero eigenvalues of  pinv(Psi_X^T, 1e-3) Psi_Y^T ) *)
(*                 ordered by distance to 1;                               *)
(*   eigentensors xi_k satisfy  K xi_k = lambda_k xi_k  (real spectra);    *)
(*   a list of index-set pairs is treated pair by pair: the k-th result    *)
(*   equals the result of the call with the k-th pair alone.               *)
(* The specification fixes data, bases and index-set pairs; the matrix     *)
(* EDMD itself is evaluated numerically from the leaves.                   *)
(***************************************************************************)
EXTENDS Transform

\* index-set pairs (0-based snapshot indices): time-lagged, lag 2, symmetrised
Pairs(m) == <<[x |-> [k \in 1..(m - 1) |-> k - 1], y |-> [k \in 1..(m - 1) |-> k]],
              [x |-> [k \in 1..(m - 2) |-> k - 1], y |-> [k \in 1..(m - 2) |-> k + 1]],
              [x |-> [k \in 1..(2 * (m - 1)) |-> IF k <= m - 1 THEN k - 1 ELSE k - (m - 1)],
               y |-> [k \in 1..(2 * (m - 1)) |-> IF k <= m - 1 THEN k ELSE k - (m - 1) - 1]]>>

EConfigs ==
    UNION {{[d |-> d, m |-> m, seed |-> seed, basis |-> b, npairs |-> np] :
               m \in (IF Level = 1 THEN {5} ELSE {4, 5, 7}), seed \in 1..(IF Level = 1 THEN 2 ELSE 4), np \in 1..3,
               b \in UNION {[1..p -> ModeCat(d)] : p \in 2..(IF Level = 1 THEN 2 ELSE 3)}} : d \in 1..2}
\* trajectories of integer linear maps with complex eigenvalues (rotating dynamics: genuinely complex EDMD spectra, the
\* order by distance to 1 differs from the order of the real parts); x_1 from the seed, x_{j+1} = A x_j
RotMaps == <<<<<<1, -2>>, <<2, 1>>>>, <<<<0, -1>>, <<1, 0>>>>, <<<<1, -1>>, <<1, 0>>>>, <<<<2, -1>>, <<1, 1>>>>, <<<<0, -2>>, <<1, 1>>>>>>
RECURSIVE TrajPoint(_, _, _)
TrajPoint(A, x1, j) == IF j = 1 THEN x1
                       ELSE LET y == TrajPoint(A, x1, j - 1) IN <<A[1][1] * y[1] + A[1][2] * y[2], A[2][1] * y[1] + A[2][2] * y[2]>>
TrajData(a, seed, m) == LET x1 == <<1 + ((seed + SaltValue) % 2), ((seed + SaltValue) % 3) - 1>>
                        IN  [i \in 1..2 |-> [j \in 1..m |-> TrajPoint(RotMaps[a], x1, j)[i]]]
TrajBases == {<<<<Const(0), Id(0)>>, <<Const(1), Id(1)>>>>, <<<<Id(0), Id(1)>>, <<Const(0), Id(1)>>>>,
              <<<<Const(0), Id(0), Id(1)>>, <<Const(0), Id(0)>>>>, <<<<Id(0), Id(1)>>, <<Id(0), Id(1)>>>>,
              \* three modes: an interior core in the HOSVD loop
              <<<<Const(0), Id(0)>>, <<Const(0), Id(1)>>, <<Const(0), Id(0)>>>>}
TConfigs == {[d |-> 2, m |-> m, seed |-> seed, basis |-> b, npairs |-> np, traj |-> a] :
                m \in (IF Level = 1 THEN {5} ELSE {4, 5, 6}), seed \in 1..(IF Level = 1 THEN 2 ELSE 4), np \in {1, 3},
                b \in TrajBases, a \in 1..Len(RotMaps)}
\* long trajectories (many more snapshots than basis functions: the regime in which implementations switch to Gram-matrix
\* based decompositions) of the norm-preserving quarter rotation, with a badly scaled basis function (singular values of
\* Psi_x between the 1e-3 cut and 3e-2)
LongConfigs == {[d |-> 2, m |-> m, seed |-> seed, npairs |-> 1, traj |-> 2,
                 basis |-> <<<<Const(0), Mono(0, 1, <<1, sc>>)>>, <<Const(1), Id(1)>>>>] :
                   m \in (IF Level = 1 THEN {208} ELSE {208, 420}), seed \in {1, 2}, sc \in {24, 48}}
EIx(c) == c.d * 3 + c.m * 5 + c.seed * 7 + Len(c.basis) * 11 + Len(c.basis[1]) * 13 + c.basis[1][1].idx + c.npairs
EInit == cfg \in {c \in EConfigs \cup TConfigs \cup LongConfigs : (EIx(c) + (IF "traj" \in DOMAIN c THEN c.traj ELSE 0)) % NShards = Shard} /\ out = <<>>
EBuild ==
    /\ out = <<>>
    /\ LET x == IF "traj" \in DOMAIN cfg THEN TrajData(cfg.traj, cfg.seed, cfg.m)
                ELSE [i \in 1..cfg.d |-> [j \in 1..cfg.m |-> (((cfg.seed + SaltValue) * 11 + i * 5 + j * 3 + i * j * j) % 7) - 3]]
       IN  out' = <<[x |-> x, leaves |-> LeavesGeneral(x, cfg.basis), pairs |-> SubSeq(Pairs(cfg.m), 1, cfg.npairs)]>>
    /\ UNCHANGED cfg
ENext == EBuild
EEmit == out # <<>> => PrintT("@@CASE " \o ToJson([cfg |-> cfg, expect |-> out[1]]))
=============================================================================
