---------------------------- MODULE Trace_Sweep -----------------------------
(***************************************************************************)
(* Code -> spec: validates RECORDED sequences of helper calls of the       *)
(* alternating solvers / TDVP integrators against the environment-cache    *)
(* protocol of Sweep.tla.  The recorder wraps the module-level helpers     *)
(* (stack construction, micro-system construction, core update) and logs   *)
(* one event per call: <<op, i>> with op in BuildL, BuildR, Micro1,        *)
(* Micro2, Update1F, Update1B, Update2.  Any call order is accepted as     *)
(* long as no micro system (and no stack construction) reads an            *)
(* environment that is undefined or was built from outdated cores.         *)
(* One ndjson line per trace: {"tid":k,"D":order,"events":[[op,i],..]}.    *)
(***************************************************************************)
EXTENDS Integers, Sequences, FiniteSets, TLC, Json, IOUtils

Traces == ndJsonDeserialize(IOEnv.TRACE_FILE)
VARIABLES tid, l, ver, L, R, bad
tvars == <<tid, l, ver, L, R, bad>>

Tr == Traces[tid]
D == Tr.D
Cores == 0..(D - 1)
Undef == [def |-> FALSE, snap |-> <<>>]
Env(S) == [def |-> TRUE, snap |-> [c \in S |-> ver[c]]]
LeftOf(k) == 0..(k - 1)
RightOf(k) == (k + 1)..(D - 1)
FreshL(k) == L[k].def /\ L[k] = Env(LeftOf(k))
FreshR(k) == R[k].def /\ R[k] = Env(RightOf(k))

TInit ==
    /\ tid \in 1..Len(Traces) /\ l = 1 /\ bad = ""
    /\ ver = [c \in 0..(Traces[tid].D - 1) |-> 0]
    /\ L = [c \in 0..(Traces[tid].D - 1) |-> Undef] /\ R = [c \in 0..(Traces[tid].D - 1) |-> Undef]
    /\ TLCSet(tid, 0)

Clause(op, i) ==
    IF i \notin Cores THEN "index"
    ELSE CASE op = "BuildL" -> IF i = 0 THEN "" ELSE IF ~L[i - 1].def THEN "undefined" ELSE IF ~FreshL(i - 1) THEN "stale" ELSE ""
           [] op = "BuildR" -> IF i = D - 1 THEN "" ELSE IF ~R[i + 1].def THEN "undefined" ELSE IF ~FreshR(i + 1) THEN "stale" ELSE ""
           [] op = "Micro1" -> IF ~L[i].def \/ ~R[i].def THEN "undefined" ELSE IF ~FreshL(i) \/ ~FreshR(i) THEN "stale" ELSE ""
           [] op = "Micro2" -> IF i + 1 \notin Cores THEN "index"
                               ELSE IF ~L[i].def \/ ~R[i + 1].def THEN "undefined"
                               ELSE IF ~FreshL(i) \/ ~FreshR(i + 1) THEN "stale" ELSE ""
           [] OTHER -> ""
Bump(S) == ver' = [c \in Cores |-> IF c \in S THEN ver[c] + 1 ELSE ver[c]]

TNext ==
    /\ bad = "" /\ l <= Len(Tr.events)
    /\ LET op == Tr.events[l][1]
           i == Tr.events[l][2]
       IN  /\ bad' = IF Clause(op, i) = "" THEN "" ELSE ToString(l) \o ":" \o op \o ":" \o Clause(op, i)
           /\ IF i \notin Cores THEN UNCHANGED <<ver, L, R>>
              ELSE CASE op = "BuildL" -> L' = [L EXCEPT ![i] = Env(LeftOf(i))] /\ UNCHANGED <<ver, R>>
                     [] op = "BuildR" -> R' = [R EXCEPT ![i] = Env(RightOf(i))] /\ UNCHANGED <<ver, L>>
                     [] op = "Update1F" -> Bump({i} \cup (IF i + 1 \in Cores THEN {i + 1} ELSE {})) /\ UNCHANGED <<L, R>>
                     [] op = "Update1B" -> Bump({i} \cup (IF i - 1 \in Cores THEN {i - 1} ELSE {})) /\ UNCHANGED <<L, R>>
                     [] op = "Update2" -> Bump({i} \cup (IF i + 1 \in Cores THEN {i + 1} ELSE {})) /\ UNCHANGED <<L, R>>
                     [] OTHER -> UNCHANGED <<ver, L, R>>
    /\ l' = l + 1 /\ tid' = tid
TraceSpec == TInit /\ [][TNext]_tvars
TMark == TLCSet(tid, IF bad # "" THEN 0 - (l - 1) ELSE l - 1) /\ (bad # "" => PrintT(<<"@@BAD", Tr.tid, bad>>))
TPost == \A k \in 1..Len(Traces) : TLCGet(k) = Len(Traces[k].events) \/ PrintT(<<"@@REJECT", Traces[k].tid, TLCGet(k)>>)
=============================================================================
