--------------------------------- MODULE Dmd --------------------------------
(***************************************************************************)
(* C17: tensor-based DMD.                                                  *)
(* Island: snapshots X (N x m, full row rank, N = PROD n_k <= m) and       *)
(* Y = A X with A = S Dg S^-1, S unimodular, Dg = diag of distinct         *)
(* non-zero integers.  Then matrix DMD  Y pinv(X) = A  exactly, so the DMD *)
(* eigenvalues are the diagonal of Dg and the exact / standard DMD modes   *)
(* are eigenvectors of A.  X and Y are handed over as exact integer        *)
(* tensor trains (the canonical TT of a matrix with modes n_1..n_p, m).    *)
(* General case: arbitrary integer trains x, y; the reference is matrix    *)
(* DMD of the unfolded snapshot matrices (numeric evaluator).              *)
(***************************************************************************)
EXTENDS Islands, Json

CONSTANTS Level, NShards, Shard
VARIABLES cfg, out
vars == <<cfg, out>>

\* integer matrices as sequences of rows of Gaussian integers
MatMulM(A, B) == [i \in 1..Len(A) |-> [j \in 1..Len(B[1]) |-> CSumTo([k \in 1..Len(B) |-> CMul(A[i][k], B[k][j])], Len(B))]]
DiagM(dg) == [i \in 1..Len(dg) |-> [j \in 1..Len(dg) |-> IF i = j THEN CI(dg[i]) ELSE CZ]]
\* full-row-rank snapshots: [ T | fill ] with T unit lower triangular (determinant 1)
SnapX(N, m, seed) == [i \in 1..N |-> [j \in 1..m |-> IF j <= N THEN (IF i = j THEN C1 ELSE IF i > j THEN CI((Hash(seed, i, j, 1, 2, 3) % 3) - 1) ELSE CZ)
                                                 ELSE CI((Hash(seed, i, j, 3, 2, 1) % 5) - 2)]]
\* canonical exact TT of a matrix with row modes dims (vector-type train with modes dims \o <<m>>)
MatrixTT(dims, X) ==
    LET p == Len(dims)
        m == Len(X[1])
        left(k) == Prod(SubSeq(dims, 1, k))
    IN  [k \in 1..(p + 1) |->
          IF k <= p
          THEN [a \in 1..left(k - 1) |-> [i \in 1..dims[k] |-> <<[b \in 1..left(k) |->
                  IF b = (a - 1) * dims[k] + i THEN C1 ELSE CZ]>>]]
          ELSE [a \in 1..left(p) |-> [j \in 1..m |-> <<<<X[a][j]>>>>]]]

DmdIsland(c) ==
    LET N == Prod(c.dims)
        X == SnapX(N, c.m, c.seed)
        A == MatMulM(MatMulM(Gauge(N), DiagM(c.dg)), GaugeInv(N))
        Y == MatMulM(A, X)
    IN  [x |-> MatrixTT(c.dims, X), y |-> MatrixTT(c.dims, Y), eig |-> c.dg, A |-> A]
GenCase(c) ==
    LET sh == [rd |-> c.dims \o <<c.m>>, cd |-> [k \in 1..(Len(c.dims) + 1) |-> 1],
               rk |-> [k \in 1..(Len(c.dims) + 2) |-> IF k = 1 \/ k = Len(c.dims) + 2 THEN 1 ELSE c.r]]
    IN  [x |-> FillCores("real", c.seed, sh), y |-> FillCores("real", c.seed + 4, sh)]

DgOf(N, v) == [k \in 1..N |-> IF v = 1 THEN (IF k % 2 = 1 THEN k + 1 ELSE 0 - k) ELSE 2 * k - 1]       \* distinct, non-zero
Configs ==
    {[island |-> TRUE, dims |-> dims, m |-> Prod(dims) + extra, seed |-> seed, dg |-> DgOf(Prod(dims), v)] :
        dims \in (IF Level = 1 THEN {<<2, 2>>, <<3, 2>>, <<2>>} ELSE {<<2>>, <<2, 2>>, <<3, 2>>, <<2, 3>>, <<2, 2, 2>>}),
        extra \in {0, 2}, seed \in {1, 2}, v \in {1, 2}}
    \cup {[island |-> FALSE, dims |-> dims, m |-> m, seed |-> seed, r |-> r] :
        dims \in {<<2, 2>>, <<3, 2>>, <<2, 2, 2>>}, m \in {3, 5}, seed \in {1, 2}, r \in {1, 2, 3}}
Ix(c) == ISum(c.dims) * 3 + c.m * 5 + c.seed * 7 + (IF c.island THEN 1 ELSE c.r * 2)
Init == cfg \in {c \in Configs : Ix(c) % NShards = Shard} /\ out = <<>>
Build == out = <<>> /\ out' = <<IF cfg.island THEN DmdIsland(cfg) ELSE GenCase(cfg)>> /\ UNCHANGED cfg
Next == Build
Spec == Init /\ [][Next]_vars

\* model-level: the canonical TT denotes the matrix, and S S^-1 = I
IslandOK ==
    (out # <<>> /\ cfg.island /\ Prod(cfg.dims) <= 4) =>
        LET N == Prod(cfg.dims)
            X == SnapX(N, cfg.m, cfg.seed)
        IN  /\ FullOf(out[1].x).v = [n \in 1..(N * cfg.m) |-> X[((n - 1) \div cfg.m) + 1][((n - 1) % cfg.m) + 1]]
            /\ MatMulM(Gauge(N), GaugeInv(N)) = DiagM([k \in 1..N |-> 1])
Emit == out # <<>> => PrintT("@@CASE " \o ToJson([cfg |-> cfg, isl |-> out[1]]))
=============================================================================
