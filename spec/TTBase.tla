------------------------------- MODULE TTBase -------------------------------
(***************************************************************************)
(* Exact reference semantics for tensor trains (role R1 of DESIGN.md).     *)
(*                                                                         *)
(* Numbers are Gaussian integers <<re, im>>.  A tensor-train core is a      *)
(* 4-way array  core[a][i][j][b]  (1-based nested sequences) with shape    *)
(* r_left x m x n x r_right, exactly as scikit_tt stores it.  A *dense     *)
(* object* is a record                                                     *)
(*      [rd, cd, r0, rN, v]                                                *)
(* with row dimensions rd, column dimensions cd, boundary ranks r0, rN and *)
(* v the flat row-major list of entries indexed by (a, I, J, b): I the row *)
(* multi-index, J the column multi-index.  For r0 = rN = 1 this is exactly *)
(* TT.full().flatten() == TT.matricize().flatten().                        *)
(***************************************************************************)
EXTENDS Integers, Sequences, FiniteSets, TLC, Salt

\* ------------------------------------------------------------------ numbers
CZ == <<0, 0>>
C1 == <<1, 0>>
CI(n) == <<n, 0>>
CAdd(x, y) == <<x[1] + y[1], x[2] + y[2]>>
CSub(x, y) == <<x[1] - y[1], x[2] - y[2]>>
CMul(x, y) == <<x[1] * y[1] - x[2] * y[2], x[1] * y[2] + x[2] * y[1]>>
CNeg(x) == <<-x[1], -x[2]>>
CConj(x) == <<x[1], -x[2]>>
CAbs2(x) == x[1] * x[1] + x[2] * x[2]

\* balanced recursion: depth log2(n), so that vectors with thousands of entries do not overflow the JVM stack
RECURSIVE CSumRange(_, _, _)
CSumRange(f, lo, hi) ==
    IF lo > hi THEN CZ
    ELSE IF lo = hi THEN f[lo]
    ELSE LET mid == (lo + hi) \div 2 IN CAdd(CSumRange(f, lo, mid), CSumRange(f, mid + 1, hi))
CSumTo(f, n) == CSumRange(f, 1, n)
CSum(s) == CSumTo(s, Len(s))

RECURSIVE ISumRange(_, _, _)
ISumRange(f, lo, hi) ==
    IF lo > hi THEN 0
    ELSE IF lo = hi THEN f[lo]
    ELSE LET mid == (lo + hi) \div 2 IN ISumRange(f, lo, mid) + ISumRange(f, mid + 1, hi)
ISumTo(f, n) == ISumRange(f, 1, n)
ISum(s) == ISumTo(s, Len(s))

RECURSIVE Prod(_)
Prod(s) == IF s = <<>> THEN 1 ELSE s[Len(s)] * Prod(SubSeq(s, 1, Len(s) - 1))

Max(a, b) == IF a >= b THEN a ELSE b
Min(a, b) == IF a <= b THEN a ELSE b

RECURSIVE IMaxRange(_, _, _)
IMaxRange(f, lo, hi) ==
    IF lo = hi THEN f[lo]
    ELSE LET mid == (lo + hi) \div 2 IN Max(IMaxRange(f, lo, mid), IMaxRange(f, mid + 1, hi))
IMaxTo(f, n) == IMaxRange(f, 1, n)
RECURSIVE IMinRange(_, _, _)
IMinRange(f, lo, hi) ==
    IF lo = hi THEN f[lo]
    ELSE LET mid == (lo + hi) \div 2 IN Min(IMinRange(f, lo, mid), IMinRange(f, mid + 1, hi))
IMinTo(f, n) == IMinRange(f, 1, n)

\* ----------------------------------------------------------- index algebra
\* 0-based multi-indices, row-major (C order)
RECURSIVE Unflat(_, _)
Unflat(k, dims) ==
    IF dims = <<>> THEN <<>>
    ELSE LET n == Len(dims)
         IN  Append(Unflat(k \div dims[n], SubSeq(dims, 1, n - 1)), k % dims[n])

RECURSIVE Flat(_, _)
Flat(idx, dims) ==
    IF dims = <<>> THEN 0
    ELSE LET n == Len(dims)
         IN  Flat(SubSeq(idx, 1, n - 1), SubSeq(dims, 1, n - 1)) * dims[n] + idx[n]

Rev(s) == [k \in 1..Len(s) |-> s[Len(s) + 1 - k]]
Pick(s, pos) == [k \in 1..Len(pos) |-> s[pos[k]]]        \* subsequence at positions
Range(a, b) == [k \in 1..(IF b >= a THEN b - a + 1 ELSE 0) |-> a + k - 1]
AllOnes(s) == \A k \in 1..Len(s) : s[k] = 1

\* all sequences of length n over set S, as a set
SeqsOf(S, n) == [1..n -> S]

\* ------------------------------------------------------------ dense objects
Size(o) == o.r0 * Prod(o.rd) * Prod(o.cd) * o.rN

\* entry at boundary indices a,b (0-based) and multi-indices I,J (0-based)
AtG(o, a, I, J, b) ==
    o.v[1 + ((a * Prod(o.rd) + Flat(I, o.rd)) * Prod(o.cd) + Flat(J, o.cd)) * o.rN + b]
At(o, I, J) == AtG(o, 0, I, J, 0)

\* build a dense object with boundary ranks 1 from an entry function
Mk(rd, cd, F(_, _)) ==
    LET R == Prod(rd)
        C == Prod(cd)
    IN  [rd |-> rd, cd |-> cd, r0 |-> 1, rN |-> 1,
         v  |-> [n \in 1..(R * C) |-> F(Unflat((n - 1) \div C, rd), Unflat((n - 1) % C, cd))]]

\* build with open boundary ranks
MkG(rd, cd, r0, rN, F(_, _, _, _)) ==
    LET R == Prod(rd)
        C == Prod(cd)
    IN  [rd |-> rd, cd |-> cd, r0 |-> r0, rN |-> rN,
         v  |-> [n \in 1..(r0 * R * C * rN) |->
                   LET n0 == n - 1
                   IN  F(n0 \div (R * C * rN),
                         Unflat((n0 \div (C * rN)) % R, rd),
                         Unflat((n0 \div rN) % C, cd),
                         n0 % rN)]]

\* ------------------------------------------------------------------- cores
CoreR0(c) == Len(c)
CoreM(c)  == Len(c[1])
CoreN(c)  == Len(c[1][1])
CoreR1(c) == Len(c[1][1][1])

MatMulG(A, B) ==
    [a \in 1..Len(A) |-> [b \in 1..Len(B[1]) |->
        CSumTo([k \in 1..Len(B) |-> CMul(A[a][k], B[k][b])], Len(B))]]

Slice(c, i, j) == [a \in 1..CoreR0(c) |-> [b \in 1..CoreR1(c) |-> c[a][i][j][b]]]

RECURSIVE ChainProd(_, _, _, _)
\* product of the slices of cores 1..k at (0-based) indices I, J
ChainProd(cores, I, J, k) ==
    IF k = 1 THEN Slice(cores[1], I[1] + 1, J[1] + 1)
    ELSE MatMulG(ChainProd(cores, I, J, k - 1), Slice(cores[k], I[k] + 1, J[k] + 1))

RowDims(cores) == [k \in 1..Len(cores) |-> CoreM(cores[k])]
ColDims(cores) == [k \in 1..Len(cores) |-> CoreN(cores[k])]
Ranks(cores)   == [k \in 1..(Len(cores) + 1) |->
                     IF k <= Len(cores) THEN CoreR0(cores[k]) ELSE CoreR1(cores[Len(cores)])]

\* The dense tensor a list of cores denotes ("contract the cores")
FullOf(cores) ==
    LET d == Len(cores)
    IN  MkG(RowDims(cores), ColDims(cores), CoreR0(cores[1]), CoreR1(cores[d]),
            LAMBDA a, I, J, b : ChainProd(cores, I, J, d)[a + 1][b + 1])

\* ------------------------------------------------------ deterministic fills
\* small integers in -3..3, sign-changing, position dependent
Hash(seed, k, a, i, j, b) ==
    LET s == seed + SaltValue
    IN  (s * 31 + k * 17 + a * 7 + i * 3 + j * 5 + b * 11 + a * i + b * j + k * b * 2 + s * a) % 7

\* kind: "real" | "complex" | "pos" (non-negative real) | "def"/"cdef" (rank deficient:
\*        does not depend on the right rank index) | "zero"/"zmid"/"zfirst" (zero cores)
FillEntry(kind, seed, k, a, i, j, b) ==
    CASE kind = "real"    -> <<Hash(seed, k, a, i, j, b) - 3, 0>>
      [] kind = "pos"     -> <<(Hash(seed, k, a, i, j, b) % 4), 0>>
      [] kind = "complex" -> <<Hash(seed, k, a, i, j, b) - 3, (Hash(seed + 3, k + 1, b, j, i, a) % 5) - 2>>
      [] kind = "def"     -> <<Hash(seed, k, a, i, j, 1) - 3, 0>>
      [] kind = "cdef"    -> <<Hash(seed, k, a, i, j, 1) - 3, (Hash(seed + 3, k + 1, 1, j, i, a) % 5) - 2>>
      [] kind = "rep"     -> <<Hash(seed, 1, a, i, j, b) - 3, 0>>      \* independent of the core index: equal cores
      [] kind = "zero"    -> CZ                                        \* the zero train
      [] kind = "zmid"    -> IF k = 2 THEN CZ ELSE <<Hash(seed, k, a, i, j, b) - 3, 0>>   \* one zero core
      [] kind = "zfirst"  -> IF k = 1 THEN CZ ELSE <<Hash(seed, k, a, i, j, b) - 3, 0>>

FillCore(kind, seed, k, r0, m, n, r1) ==
    [a \in 1..r0 |-> [i \in 1..m |-> [j \in 1..n |-> [b \in 1..r1 |->
        FillEntry(kind, seed, k, a, i, j, b)]]]]

\* shape = [rd, cd, rk] with Len(rk) = Len(rd) + 1
\* "mixed1": first core real, the others complex; "mixedL": only the last core complex (mixed dtypes inside one train)
FillCores(kind, seed, sh) ==
    LET d == Len(sh.rd)
        kindOf(k) == CASE kind = "mixed1" -> (IF k = 1 /\ d > 1 THEN "real" ELSE "complex")
                       [] kind = "mixedL" -> (IF k = d THEN "complex" ELSE "real")
                       [] OTHER -> kind
    IN  [k \in 1..d |-> FillCore(kindOf(k), seed, k, sh.rk[k], sh.rd[k], sh.cd[k], sh.rk[k + 1])]

\* all shapes of order d with mode sizes from the given sets, inner ranks from RK
ShapesD(d, RD, CD, RK) ==
    {[rd |-> rd, cd |-> cd, rk |-> [k \in 1..(d + 1) |-> IF k = 1 \/ k = d + 1 THEN 1 ELSE ri[k - 1]]] :
        rd \in [1..d -> RD], cd \in [1..d -> CD], ri \in [1..(d - 1) -> RK]}

\* ---------------------------------------------------- dense reference algebra
DAdd(x, y) == [x EXCEPT !.v = [n \in 1..Len(x.v) |-> CAdd(x.v[n], y.v[n])]]
DSub(x, y) == [x EXCEPT !.v = [n \in 1..Len(x.v) |-> CSub(x.v[n], y.v[n])]]
DScale(s, x) == [x EXCEPT !.v = [n \in 1..Len(x.v) |-> CMul(s, x.v[n])]]
DConj(x) == [x EXCEPT !.v = [n \in 1..Len(x.v) |-> CConj(x.v[n])]]

\* operator product: plain matrix product of the matricisations
DMatMul(x, y) ==
    LET K == Prod(x.cd)
    IN  Mk(x.rd, y.cd, LAMBDA I, J :
            CSumTo([k \in 1..K |-> CMul(x.v[1 + Flat(I, x.rd) * K + (k - 1)],
                                        y.v[1 + (k - 1) * Prod(y.cd) + Flat(J, y.cd)])], K))

\* transpose the modes in S (set of 1-based positions), optionally conjugate
DTranspose(x, S, conj) ==
    LET d == Len(x.rd)
        rd2 == [k \in 1..d |-> IF k \in S THEN x.cd[k] ELSE x.rd[k]]
        cd2 == [k \in 1..d |-> IF k \in S THEN x.rd[k] ELSE x.cd[k]]
    IN  Mk(rd2, cd2, LAMBDA I, J :
            LET e == At(x, [k \in 1..d |-> IF k \in S THEN J[k] ELSE I[k]],
                           [k \in 1..d |-> IF k \in S THEN I[k] ELSE J[k]])
            IN  IF conj THEN CConj(e) ELSE e)

DNorm2Sq(x) == ISumTo([n \in 1..Len(x.v) |-> CAbs2(x.v[n])], Len(x.v))

\* documented 1-norm (non-negative real data): sum of entries for vector-type
\* trains in either orientation, maximum column sum for operators
DNorm1(x) ==
    LET R == Prod(x.rd)
        C == Prod(x.cd)
    IN  IF AllOnes(x.rd) \/ AllOnes(x.cd)
        THEN ISumTo([n \in 1..Len(x.v) |-> x.v[n][1]], Len(x.v))
        ELSE IMaxTo([c \in 1..C |-> ISumTo([r \in 1..R |-> x.v[(r - 1) * C + c][1]], R)], C)

DIsOperator(x) == ~(AllOnes(x.rd) \/ AllOnes(x.cd))

\* ---- mode contraction (TT.tensordot), dense definition
\* positions (1-based) of kept / contracted modes of self (S) and other (O)
TDLastS(mode) == mode \in {"last-first", "last-last"}
TDFirstO(mode) == mode \in {"last-first", "first-first"}
TDRevO(mode) == mode \in {"last-last", "first-first"}

DTensordot(S, O, k, mode) ==
    LET p == Len(S.rd)
        q == Len(O.rd)
        sK == IF TDLastS(mode) THEN Range(1, p - k) ELSE Range(k + 1, p)
        sC == IF TDLastS(mode) THEN Range(p - k + 1, p) ELSE Range(1, k)
        oC == IF TDFirstO(mode) THEN Range(1, k) ELSE Range(q - k + 1, q)
        oK0 == IF TDFirstO(mode) THEN Range(k + 1, q) ELSE Range(1, q - k)
        oK == IF TDRevO(mode) THEN Rev(oK0) ELSE oK0
        ns == Len(sK)
        no == Len(oK)
        \* result mode t comes from S (position) or O (position)
        sFirst == TDLastS(mode)
        rd == IF sFirst THEN Pick(S.rd, sK) \o Pick(O.rd, oK) ELSE Pick(O.rd, oK) \o Pick(S.rd, sK)
        cd == IF sFirst THEN Pick(S.cd, sK) \o Pick(O.cd, oK) ELSE Pick(O.cd, oK) \o Pick(S.cd, sK)
        crd == Pick(S.rd, sC)
        ccd == Pick(S.cd, sC)
        NC == Prod(crd) * Prod(ccd)
        \* index of S: kept positions from the result index, contracted from Ic
        SIdx(X, Xc) == [m \in 1..p |->
                          IF \E t \in 1..ns : sK[t] = m
                          THEN X[(IF sFirst THEN 0 ELSE no) + (CHOOSE t \in 1..ns : sK[t] = m)]
                          ELSE Xc[CHOOSE t \in 1..k : sC[t] = m]]
        OIdx(X, Xc) == [m \in 1..q |->
                          IF \E t \in 1..no : oK[t] = m
                          THEN X[(IF sFirst THEN ns ELSE 0) + (CHOOSE t \in 1..no : oK[t] = m)]
                          ELSE Xc[CHOOSE t \in 1..k : oC[t] = m]]
        Val(I, J) == CSumTo([c \in 1..NC |->
                        LET Ic == Unflat((c - 1) \div Prod(ccd), crd)
                            Jc == Unflat((c - 1) % Prod(ccd), ccd)
                        IN  CMul(At(S, SIdx(I, Ic), SIdx(J, Jc)), At(O, OIdx(I, Ic), OIdx(J, Jc)))], NC)
    IN  IF ns + no = 0
        THEN Mk(<<1>>, <<1>>, LAMBDA I, J : Val(<<>>, <<>>))
        ELSE Mk(rd, cd, Val)

\* concatenation of cores (boundary ranks 1): outer product, modes of x first
DConcat(x, y) ==
    LET dx == Len(x.rd)
        dy == Len(y.rd)
    IN  Mk(x.rd \o y.rd, x.cd \o y.cd, LAMBDA I, J :
            CMul(At(x, SubSeq(I, 1, dx), SubSeq(J, 1, dx)),
                 At(y, SubSeq(I, dx + 1, dx + dy), SubSeq(J, dx + 1, dx + dy))))

\* rank transpose: reverse the order of the modes
DRankTranspose(x) == Mk(Rev(x.rd), Rev(x.cd), LAMBDA I, J : At(x, Rev(I), Rev(J)))

\* diagonal operator on the modes in S (requires cd = 1 there)
DDiag(x, S) ==
    LET d == Len(x.rd)
        cd2 == [k \in 1..d |-> IF k \in S THEN x.rd[k] ELSE x.cd[k]]
    IN  Mk(x.rd, cd2, LAMBDA I, J :
            IF \A k \in S : I[k] = J[k]
            THEN At(x, I, [k \in 1..d |-> IF k \in S THEN 0 ELSE J[k]])
            ELSE CZ)

\* removal of size-1 modes: flat value unchanged
SelectPos(d, P(_)) == LET RECURSIVE go(_)
                          go(k) == IF k > d THEN <<>> ELSE (IF P(k) THEN <<k>> ELSE <<>>) \o go(k + 1)
                      IN go(1)
DSqueeze(x) ==
    LET keep == SelectPos(Len(x.rd), LAMBDA k : ~(x.rd[k] = 1 /\ x.cd[k] = 1))
    IN  [x EXCEPT !.rd = Pick(x.rd, keep), !.cd = Pick(x.cd, keep)]

\* split / merge of modes in C order: flat value unchanged, dims regrouped
RECURSIVE Flatten(_)
Flatten(ss) == IF ss = <<>> THEN <<>> ELSE ss[1] \o Flatten(Tail(ss))
DSplit(x, rds, cds) == [x EXCEPT !.rd = Flatten(rds), !.cd = Flatten(cds)]
RECURSIVE MergeDims(_, _)
MergeDims(dims, nums) ==
    IF nums = <<>> THEN <<>>
    ELSE <<Prod(SubSeq(dims, 1, nums[1]))>> \o MergeDims(SubSeq(dims, nums[1] + 1, Len(dims)), Tail(nums))
DMerge(x, nums) == [x EXCEPT !.rd = MergeDims(x.rd, nums), !.cd = MergeDims(x.cd, nums)]

\* element access
DElement(x, I, J) == At(x, I, J)

\* constructors
DZeros(rd, cd) == Mk(rd, cd, LAMBDA I, J : CZ)
DOnes(rd, cd, rk) == Mk(rd, cd, LAMBDA I, J : CI(Prod(rk)))
DEye(dims) == Mk(dims, dims, LAMBDA I, J : IF I = J THEN C1 ELSE CZ)
DUnit(dims, inds) == Mk(dims, [k \in 1..Len(dims) |-> 1], LAMBDA I, J : IF I = inds THEN C1 ELSE CZ)

\* ------------------------------------- implementation-shaped core algebra
\* block-structured sum of cores as TT.__add__ documents it
AddCores(x, y) ==
    LET d == Len(x)
    IN  [k \in 1..d |->
          LET a == x[k]
              b == y[k]
              ra0 == CoreR0(a)  ra1 == CoreR1(a)
              rb0 == CoreR0(b)  rb1 == CoreR1(b)
              R0 == IF k = 1 THEN 1 ELSE ra0 + rb0
              R1 == IF k = d THEN 1 ELSE ra1 + rb1
          IN  [p \in 1..R0 |-> [i \in 1..CoreM(a) |-> [j \in 1..CoreN(a) |-> [q \in 1..R1 |->
                 LET inA == p <= ra0 /\ q <= ra1
                     inB == p > R0 - rb0 /\ q > R1 - rb1
                 IN  CAdd(IF inA THEN a[p][i][j][q] ELSE CZ,
                          IF inB THEN b[p - (R0 - rb0)][i][j][q - (R1 - rb1)] ELSE CZ)]]]]]

\* Kronecker-structured product of cores as TT.__matmul__ computes it
MatMulCores(x, y) ==
    [k \in 1..Len(x) |->
       LET a == x[k]
           b == y[k]
       IN  [p \in 1..(CoreR0(a) * CoreR0(b)) |-> [i \in 1..CoreM(a) |-> [j \in 1..CoreN(b) |->
             [q \in 1..(CoreR1(a) * CoreR1(b)) |->
               LET pa == (p - 1) \div CoreR0(b) + 1
                   pb == ((p - 1) % CoreR0(b)) + 1
                   qa == (q - 1) \div CoreR1(b) + 1
                   qb == ((q - 1) % CoreR1(b)) + 1
               IN  CSumTo([l \in 1..CoreN(a) |-> CMul(a[pa][i][l][qa], b[pb][l][j][qb])], CoreN(a))]]]]]

=============================================================================
