------------------------------ MODULE Regression ----------------------------
(***************************************************************************)
(* C16: MANDy and alternating ridge regression.                            *)
(*   mandy_cm / mandy_fm :  matricise(Xi) = ( y * pinv(Psi) )^T            *)
(*        with Psi the (coordinate- / function-major) transformed data     *)
(*        tensor of Transform.tla matricised as  (PROD n_k) x m            *)
(*   mandy_kb            :  z * Gram(x, x) = y * pinv(Psi) * Psi           *)
(*   arr                 :  residual |y_k - Xi_k^T Psi| non-increasing in  *)
(*        the number of sweeps, ranks of the guess kept, guess unchanged    *)
(* The specification fixes the configurations (under-determined, square,   *)
(* over-determined snapshot counts, rank-deficient data), the leaves of    *)
(* Psi and the integer right-hand sides; the pseudoinverse itself is       *)
(* evaluated numerically (term  pinv(Psi, relcut)).                        *)
(***************************************************************************)
EXTENDS Transform, TTBase

YData(seed, dy, m) == [i \in 1..dy |-> [j \in 1..m |-> (((seed + SaltValue) * 3 + i * 7 + j * 5 + i * j) % 7) - 3]]

\* admissible ranks: r_k <= min(r, prod of the mode sizes to the left, prod to the right)
AdmRanks(dims, r) == [k \in 1..(Len(dims) + 1) |-> Min(r, Min(Prod(SubSeq(dims, 1, k - 1)), Prod(SubSeq(dims, k, Len(dims)))))]

RConfigs ==
    {[task |-> "mandy_cm", d |-> d, m |-> m, seed |-> seed, phi |-> phi, threxp |-> te] :
        d \in 1..3, m \in 1..(IF Level = 1 THEN 5 ELSE 7), seed \in 1..2,
        \* the last list has small amplitudes (largest singular value of Psi far below 1): relative vs absolute cut-offs differ
        phi \in ScalarCat \cup {<<Mono(0, 1, <<1, 1000>>), Mono(0, 2, <<1, 1000>>)>>}, te \in {0, 10, 1}}
    \cup {[task |-> "mandy_fm", d |-> d, m |-> m, seed |-> seed, phi |-> ph, addone |-> ao, threxp |-> te] :
        d \in 1..3, m \in 1..(IF Level = 1 THEN 5 ELSE 7), seed \in 1..2, ao \in BOOLEAN, te \in {0, 10, 1},
        ph \in {<<Id(0)>>, <<Id(0), Mono(0, 2, <<1, 1>>)>>, <<Mono(0, 2, <<1, 1>>), Id(0), SinF(0, <<1, 1>>)>>,
                <<Mono(0, 1, <<1, 1000>>), Mono(0, 2, <<1, 500>>)>>}}
    \cup UNION {{[task |-> "mandy_kb", d |-> d, m |-> m, seed |-> seed, basis |-> b] :
                    m \in 1..4, seed \in 1..2, b \in UNION {[1..p -> ModeCat(d)] : p \in 1..2}} : d \in 1..2}
    \cup UNION {{[task |-> "arr", d |-> d, m |-> m, seed |-> seed, basis |-> b, rank |-> r] :
                    m \in {3, 6}, seed \in 1..2, r \in 1..2, b \in UNION {[1..p -> ModeCat(d)] : p \in 2..3}} : d \in 1..2}

RIx(c) == Len(c.task) + c.d * 3 + c.m * 5 + c.seed * 7 + (IF "basis" \in DOMAIN c THEN Len(c.basis) * 11 + Len(c.basis[1]) ELSE Len(c.phi))
RInit == cfg \in {c \in RConfigs : RIx(c) % NShards = Shard} /\ out = <<>>
RResult(c) ==
    LET x == Data(c.seed, c.d, c.m)
        y == YData(c.seed, IF c.task \in {"mandy_cm", "mandy_fm"} THEN c.d ELSE 2, c.m)
        L == CASE c.task = "mandy_cm" -> LeavesCM(x, c.phi)
               [] c.task = "mandy_fm" -> LeavesFM(x, c.phi, c.addone)
               [] OTHER -> LeavesGeneral(x, c.basis)
        \* complex right-hand sides for the MANDy tasks with an even seed (Xi^T Psi = y is bilinear: no conjugation anywhere)
        yim == IF c.task # "arr" /\ c.seed % 2 = 0 THEN YData(c.seed + 3, Len(y), c.m) ELSE [i \in 1..Len(y) |-> [j \in 1..c.m |-> 0]]
    IN  [x |-> x, y |-> y, yim |-> yim, leaves |-> L,
         guess |-> IF c.task = "arr"
                   THEN FillCores("real", c.seed + 5, [rd |-> [k \in 1..Len(c.basis) |-> Len(c.basis[k])],
                                                       cd |-> [k \in 1..Len(c.basis) |-> 1],
                                                       rk |-> AdmRanks([k \in 1..Len(c.basis) |-> Len(c.basis[k])], c.rank)])
                   ELSE <<>>]
RBuild == out = <<>> /\ out' = <<RResult(cfg)>> /\ UNCHANGED cfg
RNext == RBuild
REmit == out # <<>> => PrintT("@@CASE " \o ToJson([cfg |-> cfg, expect |-> out[1]]))
=============================================================================
