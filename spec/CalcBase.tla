------------------------------ MODULE CalcBase ------------------------------
(***************************************************************************)
(* Expression trees, symbolic derivative D and the basis-function families *)
(* of scikit_tt.data_driven.transform (definitions only; used by           *)
(* Calculus.tla (C14), Transform.tla (C15) and GEdmd.tla (C19)).           *)
(* Expressions:                                                            *)
(*   [k |-> "c", n, d]        the rational constant n/d                    *)
(*   [k |-> "x", i]           coordinate i (0-based, as in the API)        *)
(*   [k |-> "+"|"*", a, b]    sum, product                                 *)
(*   [k |-> "^", a, p]        integer power p >= 0                         *)
(*   [k |-> "sin"|"cos"|"exp", a]                                          *)
(*   [k |-> "ind", i, lo, hi] indicator of lo <= x_i < hi (rationals)      *)
(***************************************************************************)
EXTENDS Integers, Sequences, FiniteSets, TLC, Salt

C(n, d) == [k |-> "c", n |-> n, d |-> d]
X(i) == [k |-> "x", i |-> i]
Add(a, b) == [k |-> "+", a |-> a, b |-> b]
Mul(a, b) == [k |-> "*", a |-> a, b |-> b]
Pow(a, p) == [k |-> "^", a |-> a, p |-> p]
Fn(f, a) == [k |-> f, a |-> a]
Neg(a) == Mul(C(-1, 1), a)
Sub(a, b) == Add(a, Neg(b))

\* symbolic derivative with respect to coordinate j
RECURSIVE D(_, _)
D(e, j) ==
    CASE e.k = "c" -> C(0, 1)
      [] e.k = "x" -> IF e.i = j THEN C(1, 1) ELSE C(0, 1)
      [] e.k = "+" -> Add(D(e.a, j), D(e.b, j))
      [] e.k = "*" -> Add(Mul(D(e.a, j), e.b), Mul(e.a, D(e.b, j)))
      [] e.k = "^" -> IF e.p = 0 THEN C(0, 1) ELSE Mul(Mul(C(e.p, 1), Pow(e.a, e.p - 1)), D(e.a, j))
      [] e.k = "sin" -> Mul(Fn("cos", e.a), D(e.a, j))
      [] e.k = "cos" -> Mul(Neg(Fn("sin", e.a)), D(e.a, j))
      [] e.k = "exp" -> Mul(Fn("exp", e.a), D(e.a, j))

\* structural zero test (sound: TRUE implies the expression is identically zero)
RECURSIVE IsZero(_)
IsZero(e) ==
    CASE e.k = "c" -> e.n = 0
      [] e.k = "+" -> IsZero(e.a) /\ IsZero(e.b)
      [] e.k = "*" -> IsZero(e.a) \/ IsZero(e.b)
      [] e.k = "^" -> e.p > 0 /\ IsZero(e.a)
      [] OTHER -> FALSE

\* ---- Legendre polynomials as expressions in u (coefficients over a common denominator)
LegCoef(n) == CASE n = 0 -> [den |-> 1, c |-> <<1>>]
                [] n = 1 -> [den |-> 1, c |-> <<0, 1>>]
                [] n = 2 -> [den |-> 2, c |-> <<-1, 0, 3>>]
                [] n = 3 -> [den |-> 2, c |-> <<0, -3, 0, 5>>]
                [] n = 4 -> [den |-> 8, c |-> <<3, 0, -30, 0, 35>>]
                [] n = 5 -> [den |-> 8, c |-> <<0, 15, 0, -70, 0, 63>>]
RECURSIVE PolyExpr(_, _, _, _)
PolyExpr(c, den, u, k) ==      \* sum_{m >= k} c[m] / den * u^(m-1)
    IF k > Len(c) THEN C(0, 1) ELSE Add(Mul(C(c[k], den), Pow(u, k - 1)), PolyExpr(c, den, u, k + 1))

\* ---- B-spline (Cox - de Boor) on the extended knot vector t (rationals <<n,d>> over the common
\* denominator kd); interval indicators are evaluated at the point pt (numerator over kd), which must not be a knot
RECURSIVE BBasis(_, _, _, _, _, _)
BBasis(t, kd, i, deg, pt, xi) ==      \* expression of B_{i,deg}(x) valid in a neighbourhood of pt
    IF deg = 0 THEN (IF t[i] <= pt /\ pt < t[i + 1] THEN C(1, 1) ELSE C(0, 1))
    ELSE LET den1 == t[i + deg] - t[i]
             den2 == t[i + deg + 1] - t[i + 1]
             l == IF den1 = 0 THEN C(0, 1)
                  ELSE Mul(Mul(C(kd, den1), Sub(X(xi), C(t[i], kd))), BBasis(t, kd, i, deg - 1, pt, xi))
             r == IF den2 = 0 THEN C(0, 1)
                  ELSE Mul(Mul(C(kd, den2), Sub(C(t[i + deg + 1], kd), X(xi))), BBasis(t, kd, i + 1, deg - 1, pt, xi))
         IN  Add(l, r)
RECURSIVE SplineSum(_, _, _, _, _, _, _)
SplineSum(t, kd, coef, deg, pt, xi, i) ==
    IF i > Len(coef) THEN C(0, 1)
    ELSE Add(Mul(C(coef[i], 1), BBasis(t, kd, i, deg, pt, xi)), SplineSum(t, kd, coef, deg, pt, xi, i + 1))

\* ---- the families.  Parameters are rationals <<n, d>>; idx is the coordinate the function depends on
Q(r) == C(r[1], r[2])
FamilyExpr(f) ==
    CASE f.fam = "constant" -> C(1, 1)
      [] f.fam = "identity" -> X(f.idx)
      [] f.fam = "monomial" -> Mul(Q(f.pre), Pow(X(f.idx), f.exp))
      [] f.fam = "legendre" -> LET lc == LegCoef(f.deg)
                                   u == Mul(C(f.dom[2], f.dom[1]), X(f.idx))          \* x / domain
                               IN  PolyExpr(lc.c, lc.den, u, 1)
      [] f.fam = "sin" -> Fn("sin", Mul(Q(f.alpha), X(f.idx)))
      [] f.fam = "cos" -> Fn("cos", Mul(Q(f.alpha), X(f.idx)))
      [] f.fam = "gauss" -> Fn("exp", Mul(C(0 - f.var[2], 2 * f.var[1]), Pow(Sub(X(f.idx), Q(f.mean)), 2)))
      [] f.fam = "pgauss" -> Fn("exp", Mul(C(0 - f.var[2], 2 * f.var[1]),
                                           Pow(Fn("sin", Mul(C(1, 2), Sub(X(f.idx), Q(f.mean)))), 2)))
      [] f.fam = "bspline" -> SplineSum(f.text, f.kd, f.coef, f.deg, f.ptnum, f.idx, 1)
      [] f.fam = "indicator" -> [k |-> "ind", i |-> f.idx, lo |-> f.lo, hi |-> f.hi]

=============================================================================
