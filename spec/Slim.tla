-------------------------------- MODULE Slim --------------------------------
(***************************************************************************)
(* C12: Markov operators built from reactions (SLIM) or transitions (Ulam) *)
(*                                                                         *)
(* Reference semantics by enumeration of the product state space: the      *)
(* master-equation generator is the sum of the elementary reaction terms   *)
(*    rate * ( |x + delta><x|  -  |x><x| )   on states x matching the      *)
(* reactant state(s).  States and reactions are 0-based as in the API.     *)
(* A single-cell reaction is <<reactant, product, rate>>, a two-cell       *)
(* reaction <<re_i, pr_i, re_j, pr_j, rate>> for the bond (i, j = i+1), or *)
(* (last, first) for the closing bond of a cyclic chain.                   *)
(*                                                                         *)
(* The machine: Init picks a configuration, Build computes the generator   *)
(* (one state per configuration), invariants check that every generated    *)
(* reference is itself a Markov generator.                                 *)
(***************************************************************************)
EXTENDS SlimBase, Json

CONSTANTS MaxD, Sizes, NSingle, NTwo, Seeds, ExhaustiveD2, NShards, Shard, UlamGrids, UlamN

VARIABLES cfg, out
vars == <<cfg, out>>

\* ---- deterministic reaction lists from a seed (all states inside the state space, rates 1..3)
H(a0, b, c, e) == LET a == a0 + SaltValue IN (a * 37 + b * 11 + c * 101 + e * 7 + a * b * 3 + c * e * 5 + 13) % 97
SingleList(seed, i, n, cnt) == [k \in 1..cnt |-> <<H(seed, i, k, 1) % n, H(seed, i, k, 2) % n, 1 + (H(seed, i, k, 3) % 3)>>]
TwoList(seed, b, n1, n2, cnt) ==
    [k \in 1..cnt |-> <<H(seed, b, k, 4) % n1, H(seed, b, k, 5) % n1, H(seed, b, k, 6) % n2, H(seed, b, k, 7) % n2,
                        1 + (H(seed, b, k, 8) % 3)>>]

ConfigOf(ss, seed, ns, nt, cyclic, hom) ==
    LET d == Len(ss)
        nmin == IMinTo(ss, d)
        nb == IF cyclic THEN d ELSE d - 1
    IN  [kind |-> "slim", ss |-> ss, cyclic |-> cyclic, hom |-> hom,
         scr |-> [i \in 1..d |-> IF hom THEN SingleList(seed, 1, nmin, ns) ELSE SingleList(seed, i, ss[i], ns)],
         tcr |-> [b \in 1..nb |-> IF hom THEN TwoList(seed, 1, nmin, nmin, nt)
                                  ELSE TwoList(seed, b, ss[b], ss[IF b = d THEN 1 ELSE b + 1], nt)]]

\* exhaustive: d = 2, one two-cell reaction per bond, every reactant/product combination
AllTwo(n1, n2) == {<<a, b, c, e, 2>> : a \in 0..(n1 - 1), b \in 0..(n1 - 1), c \in 0..(n2 - 1), e \in 0..(n2 - 1)}
ExhConfigs ==
    {[kind |-> "slim", ss |-> ss, cyclic |-> FALSE, hom |-> FALSE, scr |-> <<<<>>, <<>>>>, tcr |-> <<<<r>>>>] :
        ss \in [1..2 -> Sizes], r \in AllTwo(3, 3)} \cup
    {[kind |-> "slim", ss |-> ss, cyclic |-> TRUE, hom |-> FALSE, scr |-> <<<<>>, <<>>>>, tcr |-> <<<<r>>, <<<<0, 1, 1, 0, 1>>>>>>] :
        ss \in [1..2 -> Sizes], r \in AllTwo(3, 3)}
ValidRx(c) ==
    LET d == Len(c.ss)
    IN  \A b \in 1..Len(c.tcr) : \A k \in 1..Len(c.tcr[b]) :
            LET j == IF b = d THEN 1 ELSE b + 1
                r == c.tcr[b][k]
            IN  r[1] < c.ss[b] /\ r[2] < c.ss[b] /\ r[3] < c.ss[j] /\ r[4] < c.ss[j]

\* ---- Ulam: transition tables on a grid; entries of the operator are counts / simulations
UlamTable(seed, grid, n) ==
    [t \in 1..n |-> [c \in 1..(2 * Len(grid)) |->
        1 + (H(seed, t \div 2, c, IF t % 3 = 0 THEN 1 ELSE t) % grid[((c - 1) % Len(grid)) + 1])]]
\* counts[y, x] over the product grid (row = target box y, column = source box x)
UlamCounts(grid, tab) ==
    LET g == Len(grid)
    IN  Mk(grid, grid, LAMBDA Y, X :
            CI(Cardinality({t \in 1..Len(tab) : \A c \in 1..g : (tab[t][c] = X[c] + 1 /\ tab[t][g + c] = Y[c] + 1)})))

SlimConfigs ==
    {ConfigOf(ss, seed, ns, nt, cyclic, hom) :
        ss \in UNION {[1..d -> Sizes] : d \in 2..MaxD}, seed \in Seeds, ns \in NSingle, nt \in NTwo,
        cyclic \in BOOLEAN, hom \in BOOLEAN}
UlamConfigs ==
    {[kind |-> "ulam", grid |-> g, sims |-> 1 + (seed % 3), tab |-> UlamTable(seed, g, n)] :
        g \in UlamGrids, seed \in Seeds, n \in UlamN}

ShardOfCfg(c) ==
    IF c.kind = "slim" THEN (ISum(c.ss) * 3 + Len(c.ss) + Ind(c.cyclic) * 5 + Ind(c.hom) * 7 + Len(c.tcr[1]) * 11
                             + (IF Len(c.tcr[1]) > 0 THEN c.tcr[1][1][1] + c.tcr[1][1][2] * 2 + c.tcr[1][1][3] * 4 + c.tcr[1][1][4] * 8 ELSE 0)) % NShards
    ELSE (ISum(c.grid) + c.sims + Len(c.tab)) % NShards

Init ==
    /\ cfg \in {c \in SlimConfigs \cup (IF ExhaustiveD2 THEN {c \in ExhConfigs : ValidRx(c)} ELSE {}) \cup UlamConfigs :
                  ShardOfCfg(c) = Shard}
    /\ out = <<>>

Build ==
    /\ out = <<>>
    /\ out' = IF cfg.kind = "slim" THEN <<Generator(cfg.ss, cfg.scr, cfg.tcr)>>
              ELSE <<UlamCounts(cfg.grid, cfg.tab)>>
    /\ UNCHANGED cfg

Next == Build
Spec == Init /\ [][Next]_vars

\* ---- the reference itself is a Markov generator / a count table (model-level check)
ColumnSumsZero ==
    (out # <<>> /\ cfg.kind = "slim") =>
        LET g == out[1]
            N == Prod(g.rd)
        IN  \A c \in 1..N : ISumTo([r \in 1..N |-> g.v[(r - 1) * N + c][1]], N) = 0
OffDiagNonNeg ==
    (out # <<>> /\ cfg.kind = "slim") =>
        LET g == out[1]
            N == Prod(g.rd)
        IN  \A r \in 1..N, c \in 1..N : r # c => g.v[(r - 1) * N + c][1] >= 0
UlamTotal ==
    (out # <<>> /\ cfg.kind = "ulam") =>
        ISumTo([n \in 1..Len(out[1].v) |-> out[1].v[n][1]], Len(out[1].v)) = Len(cfg.tab)

Emit == out # <<>> => PrintT("@@CASE " \o ToJson([cfg |-> cfg, expect |-> out[1]]))
=============================================================================
