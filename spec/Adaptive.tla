------------------------------ MODULE Adaptive ------------------------------
(***************************************************************************)
(* C09: the step-size controller of ode.adaptive_step_size as a state      *)
(* machine on an integer time grid (the error/closeness factors are        *)
(* nondeterministic: the controller must be correct for every outcome of   *)
(* the two trial solves).                                                  *)
(*   Try(ok, hnew): both trial solutions are computed, the proposed step   *)
(*        hnew is at most factor_max * h; the step is accepted iff both    *)
(*        factors exceed 1 (ok), in which case  t' = min(t + h, T)  and    *)
(*        h' = min(hnew, T - t', hmax); a rejected step has hnew < h.      *)
(* Properties: accepted times strictly increase, never exceed T, one       *)
(* solution per accepted time; the loop terminates.                        *)
(* Trace_Adaptive.tla validates RECORDED time points against the guard of  *)
(* Accept.                                                                 *)
(***************************************************************************)
EXTENDS Integers, Sequences, TLC

CONSTANTS T, HMax, FactorMax

VARIABLES t, h, acc, nsol
vars == <<t, h, acc, nsol>>

Min2(a, b) == IF a <= b THEN a ELSE b

Init == t = 0 /\ h \in 1..HMax /\ acc = <<0>> /\ nsol = 1

Running == t < T /\ h > 0

Accept(hnew) ==
    /\ Running
    /\ hnew \in 1..(FactorMax * h)
    /\ LET tn == Min2(t + h, T)
       IN  /\ t' = tn
           /\ h' = Min2(Min2(hnew, T - tn), HMax)
           /\ acc' = Append(acc, tn)
           /\ nsol' = nsol + 1

Reject(hnew) ==
    /\ Running
    /\ hnew \in 0..(h - 1)           \* a rejected step proposes a smaller step
    /\ h' = hnew
    /\ UNCHANGED <<t, acc, nsol>>

Next == \E hnew \in 0..(FactorMax * HMax) : Accept(hnew) \/ Reject(hnew)
Spec == Init /\ [][Next]_vars /\ WF_vars(Next)

StrictlyIncreasing == \A k \in 1..(Len(acc) - 1) : acc[k] < acc[k + 1]
Bounded == \A k \in 1..Len(acc) : acc[k] >= 0 /\ acc[k] <= T
OnePerTime == nsol = Len(acc)
Terminates == <>(~Running)

=============================================================================
