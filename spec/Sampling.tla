------------------------------ MODULE Sampling ------------------------------
(***************************************************************************)
(* C20: quantum sampling draws from the Born distribution of the measured  *)
(* qubits by site-by-site inverse-CDF sampling.                            *)
(*                                                                         *)
(* The state is an n-qubit tensor train with Gaussian-integer cores (not   *)
(* normalised; the replay normalises and right-orthonormalises it, which   *)
(* does not change any conditional probability).  All marginals are exact  *)
(* integers.  The machine processes the samples one after the other and,   *)
(* per sample, the measured sites from left to right:                      *)
(*   Draw:  bit = 1  iff  u * (P(prefix 0) + P(prefix 1)) > P(prefix 0)    *)
(* with the uniform variate u = a / 1024 given by the configuration.       *)
(* Invariants checked by TLC in every state: marginal consistency (chain   *)
(* rule) and positivity of every drawn prefix.                             *)
(***************************************************************************)
EXTENDS TTBase, Json

CONSTANTS MaxN, RanksS, Kinds, Seeds, NSamples, NShards, Shard

VARIABLES cfg,      \* [n, cores, amp (dense amplitudes), meas (sorted 0-based measured sites), u (NSamples x m numerators)]
          s, i,     \* current sample (1-based), number of bits already drawn for it
          prefix,   \* bits drawn so far for the current sample
          rows      \* completed samples (sequence of bit sequences)
vars == <<cfg, s, i, prefix, rows>>

H(a0, b, c) == LET a == a0 + SaltValue IN (a * 57 + b * 131 + c * 29 + a * b * 7 + b * c * 3 + 11) % 1023

\* squared modulus of the amplitude of basis state x (sequence of bits)
Prob(x) == CAbs2(At(cfg.amp, x, [k \in 1..Len(x) |-> 0]))
AllStates(n) == [1..n -> {0, 1}]
\* marginal probability (unnormalised, integer) that the measured sites start with the bits b
Marg(b) == LET n == cfg.n
               S == {x \in AllStates(n) : \A k \in 1..Len(b) : x[cfg.meas[k] + 1] = b[k]}
               f == [x \in S |-> Prob(x)]
           IN  IF S = {} THEN 0 ELSE LET RECURSIVE SumSet(_)
                                         SumSet(T) == IF T = {} THEN 0 ELSE LET x == CHOOSE y \in T : TRUE IN f[x] + SumSet(T \ {x})
                                     IN SumSet(S)

M == Len(cfg.meas)
P0 == Marg(Append(prefix, 0))
P1 == Marg(Append(prefix, 1))
U == cfg.u[s][i + 1]

Subsets(n) == (SUBSET (0..(n - 1))) \ {{}}
RECURSIVE SortedSeq(_)
SortedSeq(S) == IF S = {} THEN <<>> ELSE LET m == CHOOSE x \in S : \A y \in S : x <= y IN <<m>> \o SortedSeq(S \ {m})

Init ==
    /\ \E n \in 1..MaxN, kind \in Kinds, seed \in Seeds :
         \E ri \in [1..(n - 1) -> RanksS], ms \in Subsets(n) :
            LET sh == [rd |-> [k \in 1..n |-> 2], cd |-> [k \in 1..n |-> 1],
                       rk |-> [k \in 1..(n + 1) |-> IF k = 1 \/ k = n + 1 THEN 1 ELSE ri[k - 1]]]
                cores == FillCores(kind, seed, sh)
                meas == SortedSeq(ms)
            IN  /\ (n * 3 + seed + ISum(sh.rk) * 5 + Cardinality(ms) * 7 + (IF 0 \in ms THEN 1 ELSE 0)) % NShards = Shard
                /\ cfg = [n |-> n, cores |-> cores, amp |-> FullOf(cores), meas |-> meas,
                          u |-> [t \in 1..NSamples |-> [k \in 1..Len(meas) |-> 1 + H(seed + n, t, k)]]]
    /\ s = 1 /\ i = 0 /\ prefix = <<>> /\ rows = <<>>

\* the state must not be the zero vector, and no variate may sit exactly on a threshold
NonZero == Marg(<<>>) > 0

Draw ==
    /\ s <= NSamples /\ i < M
    /\ LET bit == IF U * (P0 + P1) > 1024 * P0 THEN 1 ELSE 0
       IN  /\ prefix' = Append(prefix, bit)
           /\ i' = i + 1
    /\ UNCHANGED <<cfg, s, rows>>

NextSample ==
    /\ s <= NSamples /\ i = M
    /\ rows' = Append(rows, prefix)
    /\ s' = s + 1 /\ i' = 0 /\ prefix' = <<>>
    /\ UNCHANGED cfg

Next == Draw \/ NextSample
Spec == Init /\ [][Next]_vars

\* ---- invariants
ChainRule == (s <= NSamples /\ i < M) => P0 + P1 = Marg(prefix)
PrefixPossible == NonZero => Marg(prefix) > 0
\* a tie between variate and threshold makes the outcome depend on rounding: such configurations are skipped
Tie == s <= NSamples /\ i < M /\ U * (P0 + P1) = 1024 * P0
NoTieConstraint == ~Tie /\ NonZero

\* ---- emission: distinct rows (lexicographic) and their counts, when all samples are drawn
RECURSIVE BitStrings(_)
BitStrings(m) == IF m = 0 THEN <<<<>>>> ELSE LET r == BitStrings(m - 1)
                                            IN  [k \in 1..(2 * Len(r)) |-> IF k <= Len(r) THEN <<0>> \o r[k] ELSE <<1>> \o r[k - Len(r)]]
Emit == (s = NSamples + 1) =>
    PrintT("@@CASE " \o ToJson([n |-> cfg.n, cores |-> cfg.cores, meas |-> cfg.meas, u |-> cfg.u, rows |-> rows,
                                 \* exact (unnormalised) marginal of every outcome in lexicographic order, and the total
                                 dist |-> [k \in 1..Len(BitStrings(M)) |-> Marg(BitStrings(M)[k])], total |-> Marg(<<>>)]))
=============================================================================
