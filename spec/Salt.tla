-------------------------------- MODULE Salt --------------------------------
(***************************************************************************)
(* One number that is mixed into every deterministic "fill" of the         *)
(* specifications (integer cores, data matrices, reaction lists, variates).*)
(* The checked-in value is 0; the harness replaces this module in its      *)
(* scratch directory to explore other data (thorough tier, VERIF_SEED).    *)
(***************************************************************************)
SaltValue == 0
=============================================================================
