------------------------------ MODULE Calculus ------------------------------
(***************************************************************************)
(* C14: the basis-function families of scikit_tt.data_driven.transform as  *)
(* expression trees, and their derivatives by SYMBOLIC differentiation     *)
(* (operator D, computed by TLC).  Expressions:                            *)
(*   [k |-> "c", n, d]        the rational constant n/d                    *)
(*   [k |-> "x", i]           coordinate i (0-based, as in the API)        *)
(*   [k |-> "+"|"*", a, b]    sum, product                                 *)
(*   [k |-> "^", a, p]        integer power p >= 0                         *)
(*   [k |-> "sin"|"cos"|"exp", a]                                          *)
(* TLC emits value, gradient and Hessian expressions of every family x     *)
(* parameter x point; a generic evaluator computes them numerically and    *)
(* the library's __call__/partial/partial2/gradient/hessian must agree.    *)
(* Model-level invariant: derivatives in directions the function does not  *)
(* depend on are STRUCTURALLY zero.                                        *)
(***************************************************************************)
EXTENDS CalcBase, Json

CONSTANTS Level, NShards, Shard

VARIABLES cfg, out
vars == <<cfg, out>>

\* ---- configurations: family x parameters x dimension x index x evaluation point
Pts(dim) == {[j \in 1..dim |-> <<((s * 7 + j * 5) % 9) - 4, 1 + ((s + j) % 3)>>] : s \in 1..(IF Level = 1 THEN 2 ELSE 5)}
            \* lattice points (all coordinates integers): also handed over with an integer dtype / as a list of ints
            \cup {[j \in 1..dim |-> <<((s * 3 + j * 2) % 5) - 2, 1>>] : s \in 1..(IF Level = 1 THEN 1 ELSE 3)}
Params ==
    {[fam |-> "constant"], [fam |-> "identity"]}
    \cup {[fam |-> "monomial", exp |-> e, pre |-> p] : e \in 0..(IF Level = 1 THEN 3 ELSE 5), p \in {<<1, 1>>, <<-3, 2>>}}
    \cup {[fam |-> "legendre", deg |-> n, dom |-> dm] : n \in 0..5, dm \in {<<1, 1>>, <<5, 2>>}}
    \cup {[fam |-> f, alpha |-> a] : f \in {"sin", "cos"}, a \in {<<1, 1>>, <<3, 2>>, <<-2, 1>>}}
    \cup {[fam |-> f, mean |-> m, var |-> v] : f \in {"gauss", "pgauss"}, m \in {<<0, 1>>, <<3, 10>>, <<-1, 2>>}, v \in {<<1, 1>>, <<7, 10>>, <<1, 4>>}}
Configs ==
    {p @@ [dim |-> dim, idx |-> idx, pt |-> pt] : p \in Params, dim \in 1..3, idx \in 0..2, pt \in Pts(3)}
\* B-splines: knots over the common denominator 2 (0,1,2,3 resp. 0,1/2,2,3), degree 1..3, interior non-knot points
SplineConfigs ==
    {[fam |-> "bspline", dim |-> 2, idx |-> idx, deg |-> deg, kd |-> 2, knots |-> kn,
      text |-> [i \in 1..(Len(kn) + 2 * deg) |-> IF i <= deg THEN kn[1] ELSE IF i > deg + Len(kn) THEN kn[Len(kn)] ELSE kn[i - deg]],
      coef |-> [i \in 1..(Len(kn) - 1 + deg) |-> ((i * 3 + deg) % 5) - 2],
      ptnum |-> pn,
      pt |-> [j \in 1..2 |-> IF j = idx + 1 THEN <<pn, 2>> ELSE <<1, 3>>]] :
        idx \in 0..1, deg \in 1..3, kn \in {<<0, 2, 4, 6>>, <<0, 1, 4, 6>>}, pn \in 1..5}
ValidSpline(c) == \A k \in 1..Len(c.knots) : c.knots[k] # c.ptnum

AllConfigs == {c \in Configs : c.idx < c.dim /\ Len(c.pt) >= c.dim} \cup {c \in SplineConfigs : ValidSpline(c)}
CfgIx(c) == Len(c.fam) + c.dim * 3 + c.idx * 5 + c.pt[1][1] + 11 + (IF "deg" \in DOMAIN c THEN c.deg ELSE 0)
            + (IF "exp" \in DOMAIN c THEN c.exp ELSE 0)

Init == cfg \in {c \in AllConfigs : CfgIx(c) % NShards = Shard} /\ out = <<>>

Dim(c) == c.dim
Derivs(c) ==
    LET e == FamilyExpr(c)
        n == Dim(c)
    IN  [val |-> e,
         grad |-> [j \in 1..n |-> D(e, j - 1)],
         hess |-> [j \in 1..n |-> [l \in 1..n |-> D(D(e, j - 1), l - 1)]]]

Build == out = <<>> /\ out' = <<Derivs(cfg)>> /\ UNCHANGED cfg
Next == Build
Spec == Init /\ [][Next]_vars

\* derivatives in directions the function does not depend on are structurally zero
ZeroOffCoordinate ==
    out # <<>> =>
        \A j \in 1..Dim(cfg) : (j - 1 # cfg.idx) =>
            /\ IsZero(out[1].grad[j])
            /\ \A l \in 1..Dim(cfg) : IsZero(out[1].hess[j][l]) /\ IsZero(out[1].hess[l][j])

Emit == out # <<>> => PrintT("@@CASE " \o ToJson([cfg |-> cfg, expect |-> out[1]]))
=============================================================================
