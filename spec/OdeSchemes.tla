----------------------------- MODULE OdeSchemes -----------------------------
(***************************************************************************)
(* C09: one-step ODE schemes as linear recurrences                          *)
(*      SUM_i  P_i(z) x_{k+1-i} = 0 ,   z = h_k A ,                         *)
(* with rational polynomial coefficients (tables below), islands (integer  *)
(* operators with exact TT cores, dyadic step sizes h = 2^-e), the exact    *)
(* squared defects the error estimators must report, and the step-size     *)
(* controller of the adaptive method (see Adaptive.tla).                   *)
(* A polynomial is a sequence of <<power, numerator, denominator>>.        *)
(***************************************************************************)
EXTENDS LinSolve

RECURSIVE Fact(_)
Fact(n) == IF n <= 1 THEN 1 ELSE n * Fact(n - 1)

\* 2 * SUM_{j=1..m} w^(2j-1) / (2j-1)!      (the higher-order-differencing increment), as a polynomial in w
HodInc(m) == [j \in 1..m |-> <<2 * j - 1, 2, Fact(2 * j - 1)>>]
\* the same polynomial evaluated at w = z/2, written as a polynomial in z
HodIncHalf(m) == [j \in 1..m |-> <<2 * j - 1, 2, Fact(2 * j - 1) * (2 ^ (2 * j - 1))>>]

Scheme(name, m) ==
    CASE name = "explicit_euler" -> <<<<<<0, 1, 1>>>>, <<<<0, -1, 1>>, <<1, -1, 1>>>>>>                       \* x1 - (1+z) x0
      [] name = "implicit_euler" -> <<<<<<0, 1, 1>>, <<1, -1, 1>>>>, <<<<0, -1, 1>>>>>>                       \* (1-z) x1 - x0
      [] name = "trapezoidal_rule" -> <<<<<<0, 1, 1>>, <<1, -1, 2>>>>, <<<<0, -1, 1>>, <<1, -1, 2>>>>>>       \* (1-z/2) x1 - (1+z/2) x0
      [] name = "hod" -> <<<<<<0, 1, 1>>>>, [j \in 1..m |-> <<2 * j - 1, -2, Fact(2 * j - 1)>>], <<<<0, -1, 1>>>>>>
\* documented start-up of hod when no previous value is given:  x_{-1} = x_0 - HodInc(z/2) (1 - z/2) x_0
\* With normalisation p every state the scheme produces is scaled to unit p-norm, the start-up state x_{-1} (or the
\* previous value handed over) included:  x_{k+1} = N_p(x_{k-1} + HodInc(z) x_k),  x_{-1} := N_p(x_{-1}).
\* as the pair (Q, R):  x_{-1} = x_0 - Q(z) R(z) x_0
HodStart(m) == [Q |-> HodIncHalf(m), R |-> <<<<0, 1, 1>>, <<1, -1, 2>>>>]

\* ---- islands
\* Kronecker sum of local two-state Markov generators [[-a, b], [a, -b]] (column sums 0, off-diagonals >= 0)
LocalGen(a, b) == <<<<CI(0 - a), CI(b)>>, <<CI(a), CI(0 - b)>>>>
Eye2 == <<<<C1, CZ>>, <<CZ, C1>>>>
RankOneOp(mats) == [k \in 1..Len(mats) |-> <<[i \in 1..2 |-> [j \in 1..2 |-> <<mats[k][i][j]>>]]>>]
RECURSIVE KronSumFrom(_, _, _)
KronSumFrom(d, rates, i) ==
    LET term == RankOneOp([k \in 1..d |-> IF k = i THEN LocalGen(rates[i][1], rates[i][2]) ELSE Eye2])
    IN  IF i = d THEN term ELSE AddCores(term, KronSumFrom(d, rates, i + 1))
GenCores(d, seed) == KronSumFrom(d, [i \in 1..d |-> <<1 + ((seed + i) % 3), 1 + ((seed * 2 + i) % 2)>>], 1)
\* positive vectors: sum of two positive product vectors
PosCores(d, seed) ==
    LET pv(s) == [k \in 1..d |-> <<[i \in 1..2 |-> <<<<CI(1 + ((s + k + i) % 3))>>>>]>>]
    IN  IF d = 1 THEN pv(seed) ELSE AddCores(pv(seed), pv(seed + 1))

OdeIsland(c) ==
    LET d == Len(c.dims)
        A == IF c.op = "markov" THEN GenCores(d, c.seed)
             \* herm: G + G^H with a complex G: the step matrices I - hA of the implicit schemes are complex Hermitian
             \* (what a solver that exploits the structure of its micro systems has to tell apart from complex symmetric)
             ELSE IF c.op = "herm" THEN LET G == FillCores("complex", c.seed, OpShape(c.dims, 1)) IN AddCores(G, AdjCores(G))
             ELSE FillCores(IF c.cplx THEN "complex" ELSE "real", c.seed, OpShape(c.dims, c.rg))
        \* seed 2: real-valued initial values also for complex operators (mixed dtypes)
        x0 == IF c.op = "markov" THEN PosCores(d, c.seed) ELSE FullRankCores(c.dims, c.rx, c.seed + 1, c.cplx /\ c.seed # 2)
    IN  [A |-> A, x0 |-> x0,
         guess |-> FullRankCores(c.dims, MaxRanks(c.dims), c.seed + 2, c.cplx),
         prev |-> FullRankCores(c.dims, c.rx, c.seed + 4, c.cplx),
         scheme |-> Scheme(c.scheme, c.m), start |-> HodStart(c.m)]

\* exact squared defects of arbitrary integer state lists (what the error estimators must return, squared):
\* numerators and denominators scaled by 4^(e+1)
RECURSIVE Pow2(_)
Pow2(e) == IF e = 0 THEN 1 ELSE 2 * Pow2(e - 1)
EstimatorSq(name, A, xa, xb, e) ==       \* xa = x_i, xb = x_{i+1}, h = 2^-e
    LET s == Pow2(e + 1)                  \* 2/h
        Ax(a) == DMatMul(A, a)
        Sc(k, a) == DScale(CI(k), a)
    IN  CASE name = "explicit_euler" ->   \* |x_{i+1} - (I + hA) x_i|^2 / |x_i|^2
               [num |-> DNorm2Sq(DSub(Sc(s, xb), DAdd(Sc(s, xa), Sc(2, Ax(xa))))), den |-> DNorm2Sq(Sc(s, xa))]
          [] name = "implicit_euler" ->   \* |(I - hA) x_{i+1} - x_i|^2 / |x_i|^2
               [num |-> DNorm2Sq(DSub(DSub(Sc(s, xb), Sc(2, Ax(xb))), Sc(s, xa))), den |-> DNorm2Sq(Sc(s, xa))]
          [] name = "trapezoidal_rule" -> \* |(I - h/2 A) x_{i+1} - (I + h/2 A) x_i|^2 / |(I + h/2 A) x_i|^2
               [num |-> DNorm2Sq(DSub(DSub(Sc(s, xb), Ax(xb)), DAdd(Sc(s, xa), Ax(xa)))),
                den |-> DNorm2Sq(DAdd(Sc(s, xa), Ax(xa)))]

OdeDims == IF Level = 1 THEN {<<2, 2>>, <<2, 2, 2>>, <<3>>, <<2, 1, 2>>} ELSE {<<2>>, <<2, 2>>, <<2, 2, 2>>, <<3, 2>>, <<2, 3, 2>>, <<1, 2, 2>>, <<2, 2, 1>>}
StepLists == {<<7>>, <<6, 8>>, <<7, 6, 8>>, <<7, 6, 7>>, <<6, 8, 8, 6>>}
OdeConfigs ==
    UNION {
      {[dims |-> dims, op |-> "fill", rg |-> 2, cplx |-> cplx, seed |-> seed, rx |-> rx, scheme |-> sch, m |-> 1, steps |-> st] :
          cplx \in BOOLEAN, seed \in {1, 2}, rx \in {MaxRanks(dims)} \cup {[k \in 1..(Len(dims) + 1) |-> 1]},
          sch \in {"explicit_euler", "implicit_euler", "trapezoidal_rule"}, st \in StepLists}
      \cup {[dims |-> dims, op |-> "fill", rg |-> 1, cplx |-> cplx, seed |-> 3, rx |-> MaxRanks(dims), scheme |-> "hod", m |-> m, steps |-> st] :
          cplx \in BOOLEAN, m \in 1..3, st \in {<<7>>, <<7, 7, 7>>}}
      : dims \in OdeDims}
    \cup {[dims |-> [k \in 1..d |-> 2], op |-> "markov", rg |-> 2, cplx |-> FALSE, seed |-> seed, rx |-> MaxRanks([k \in 1..d |-> 2]),
           scheme |-> sch, m |-> 1, steps |-> st] :
          d \in 1..3, seed \in {1, 2}, sch \in {"explicit_euler", "implicit_euler", "trapezoidal_rule"}, st \in StepLists}
    \cup {[dims |-> dims, op |-> "herm", rg |-> 2, cplx |-> TRUE, seed |-> seed, rx |-> MaxRanks(dims), scheme |-> sch, m |-> 1, steps |-> st] :
          dims \in {<<2, 2>>, <<2, 3, 2>>}, seed \in {1, 2}, sch \in {"implicit_euler", "trapezoidal_rule"}, st \in {<<7>>, <<6, 8>>}}
    \* hod on Markov generators: the default normalisation of hod is the Manhattan norm (sum of the entries)
    \cup {[dims |-> [k \in 1..d |-> 2], op |-> "markov", rg |-> 2, cplx |-> FALSE, seed |-> seed, rx |-> MaxRanks([k \in 1..d |-> 2]),
           scheme |-> "hod", m |-> m, steps |-> st] : d \in 1..2, seed \in {1, 2}, m \in 1..2, st \in {<<7>>, <<7, 7, 7>>}}

\* estimator cases: arbitrary integer lists of three states
EstConfigs == {[est |-> TRUE, dims |-> dims, cplx |-> cplx, seed |-> seed, scheme |-> sch, e |-> e] :
                  dims \in {<<2, 2>>, <<2, 3>>}, cplx \in BOOLEAN, seed \in {1, 2},
                  sch \in {"explicit_euler", "implicit_euler", "trapezoidal_rule"}, e \in {1, 3}}
EstCase(c) ==
    LET A == FillCores(IF c.cplx THEN "complex" ELSE "real", c.seed, OpShape(c.dims, 2))
        xs == [k \in 1..3 |-> FillCores(IF c.cplx THEN "complex" ELSE "real", c.seed + k,
                                        [rd |-> c.dims, cd |-> [j \in 1..Len(c.dims) |-> 1], rk |-> <<1, 2, 1>>])]
        Ad == FullOf(A)
        xd == [k \in 1..3 |-> FullOf(xs[k])]
    IN  [A |-> A, xs |-> xs, \* the two steps use different step sizes h = 2^-e and h/2 (the estimator must pair step i with step size i)
         sq |-> [i \in 1..2 |-> EstimatorSq(c.scheme, Ad, xd[i], xd[i + 1], c.e + i - 1)]]

OdeIx(c) == ISum(c.dims) * 3 + c.seed * 5 + Len(c.scheme) + (IF c.cplx THEN 1 ELSE 0)
            + (IF "steps" \in DOMAIN c THEN Len(c.steps) * 7 + c.m + ISum(c.rx) ELSE c.e)
OInit == cfg \in {c \in OdeConfigs \cup EstConfigs : OdeIx(c) % NShards = Shard} /\ out = <<>>
OBuild == out = <<>> /\ out' = <<IF "est" \in DOMAIN cfg THEN EstCase(cfg) ELSE OdeIsland(cfg)>> /\ UNCHANGED cfg
ONext == OBuild

\* model-level: the Markov islands are generators (column sums zero, off-diagonals non-negative)
MarkovOK ==
    (out # <<>> /\ "op" \in DOMAIN cfg /\ cfg.op = "markov") =>
        LET g == FullOf(out[1].A)
            N == Prod(cfg.dims)
        IN  /\ \A c \in 1..N : ISumTo([r \in 1..N |-> g.v[(r - 1) * N + c][1]], N) = 0
            /\ \A r \in 1..N, c \in 1..N : r # c => g.v[(r - 1) * N + c][1] >= 0
            /\ \A n \in 1..Len(FullOf(out[1].x0).v) : FullOf(out[1].x0).v[n][1] > 0

OEmit == out # <<>> => PrintT("@@CASE " \o ToJson([cfg |-> cfg, isl |-> out[1]]))
=============================================================================
