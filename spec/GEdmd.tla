-------------------------------- MODULE GEdmd -------------------------------
(***************************************************************************)
(* C19: generator EDMD.                                                    *)
(* (a) The Kolmogorov generator on a product of basis functions            *)
(*       L F = b . grad F + 1/2 (sigma sigma^T) : Hess F ,  F = PROD_j f_j *)
(*     and its reversible gradient form  grad F . sigma[:, i]  are built   *)
(*     SYMBOLICALLY by TLC (operator D of CalcBase applied to the product  *)
(*     expression), for possibly non-square integer sigma.                 *)
(* (b) Ornstein-Uhlenbeck island: drift -theta * x, constant diagonal      *)
(*     diffusion, monomial product basis of all degrees <= deg: the        *)
(*     generator maps the span into itself triangularly, so the tgEDMD     *)
(*     eigenvalues are exactly  -(SUM_k n_k theta_k), independent of the   *)
(*     data (snapshots on a full grid make Psi of full row rank).          *)
(* (c) General configurations (data, bases, state-dependent drift and      *)
(*     diffusion, reweighting) whose reference is the dense projected      *)
(*     generator matrix (numeric evaluator).                               *)
(***************************************************************************)
EXTENDS Transform

RECURSIVE ProdExpr(_)
ProdExpr(es) == IF Len(es) = 1 THEN es[1] ELSE Mul(es[1], ProdExpr(Tail(es)))
RECURSIVE SumExpr(_)
SumExpr(es) == IF es = <<>> THEN C(0, 1) ELSE IF Len(es) = 1 THEN es[1] ELSE Add(es[1], SumExpr(Tail(es)))

\* a = sigma sigma^T for an integer d x d2 matrix (sequence of rows)
AMat(sig) == [i \in 1..Len(sig) |-> [j \in 1..Len(sig) |-> SumS([k \in 1..Len(sig[1]) |-> sig[i][k] * sig[j][k]])]]
GenExpr(F, d, b, sig) ==
    LET a == AMat(sig)
    IN  Add(SumExpr([i \in 1..d |-> Mul(C(b[i], 1), D(F, i - 1))]),
            SumExpr([ij \in 1..(d * d) |-> LET i == ((ij - 1) \div d) + 1
                                               j == ((ij - 1) % d) + 1
                                           IN  Mul(C(a[i][j], 2), D(D(F, i - 1), j - 1))]))
RevExpr(F, d, sig, col) == SumExpr([j \in 1..d |-> Mul(C(sig[j][col], 1), D(F, j - 1))])

IntMat(seed, r, c) == [i \in 1..r |-> [j \in 1..c |-> (((seed + SaltValue) * 7 + i * 3 + j * 5 + i * j) % 5) - 2]]
\* points with exact zero coordinates included
Pt(seed, d) == LET s == seed + SaltValue IN [i \in 1..d |-> IF (s + i) % 3 = 0 THEN 0 ELSE ((s * 3 + i * 7) % 5) - 2]

GopBases(d) ==
    {<<<<Id(0), Mono(0, 2, <<1, 1>>)>>, <<Const(0), Id(d - 1), Mono(d - 1, 3, <<1, 1>>)>>>>,
     <<<<SinF(0, <<1, 1>>), Id(0)>>, <<Id(d - 1), CosF(d - 1, <<1, 2>>)>>, <<Mono(0, 2, <<1, 1>>), GaussF(d - 1, <<0, 1>>, <<1, 1>>)>>>>,
     <<<<Id(0), Const(0)>>, <<Id(0), Mono(0, 2, <<1, 1>>)>>, <<Id(d - 1), Mono(d - 1, 2, <<1, 1>>)>>>>}

GConfigs ==
    UNION {{[task |-> "gop", d |-> d, d2 |-> d2, seed |-> seed, basis |-> bs] :
               d2 \in 1..3, seed \in 1..(IF Level = 1 THEN 3 ELSE 6), bs \in GopBases(d)} : d \in 2..3}
    \cup {[task |-> "ou", theta |-> th, deg |-> 2, sig |-> sg, extra |-> ex] :
            th \in {<<1, 2>>, <<3, 1>>, <<2, 5>>}, sg \in {1, 2}, ex \in {0, 3}}
    \cup UNION {{[task |-> "gen", d |-> d, m |-> m, d2 |-> d2, seed |-> seed, basis |-> b, rev |-> rv, rew |-> rw] :
                    m \in {6, 9}, d2 \in {d, d + 1}, seed \in 1..2, rv \in BOOLEAN, rw \in BOOLEAN,
                    b \in {<<<<Const(0), Id(0), Mono(0, 2, <<1, 1>>)>>, <<Const(0), Id(d - 1)>>>>,
                           <<<<Id(0), SinF(0, <<1, 1>>)>>, <<Const(0), Id(d - 1), Mono(d - 1, 2, <<1, 1>>)>>>>,
                           \* three and four modes: the interior ("middle") contraction steps of the reduced matrix
                           <<<<Const(0), Id(0)>>, <<Const(0), Id(d - 1)>>, <<Const(0), Mono(0, 2, <<1, 1>>)>>>>,
                           <<<<Const(0), Id(0)>>, <<Id(d - 1), Mono(d - 1, 2, <<1, 1>>)>>, <<Const(0), SinF(0, <<1, 1>>)>>, <<Const(0), Id(d - 1)>>>>}} : d \in 1..2}

GIx(c) == Len(c.task) + (IF "d" \in DOMAIN c THEN c.d * 3 + c.seed * 7 + c.d2 ELSE c.theta[1] + c.sig + c.extra)
          + (IF "basis" \in DOMAIN c THEN Len(c.basis) * 5 + Len(c.basis[1]) ELSE 0)
GInit == cfg \in {c \in GConfigs : GIx(c) % NShards = Shard} /\ out = <<>>

\* all index tuples of a basis list (0-based), as sequences
RECURSIVE Tuples(_)
Tuples(ns) == IF ns = <<>> THEN {<<>>} ELSE {<<i>> \o t : i \in 0..(ns[1] - 1), t \in Tuples(Tail(ns))}

GResult(c) ==
    CASE c.task = "gop" ->
            LET sig == IntMat(c.seed, c.d, c.d2)
                b == [i \in 1..c.d |-> ((c.seed + i * 2) % 5) - 2]
                x == Pt(c.seed, c.d)
                ns == [k \in 1..Len(c.basis) |-> Len(c.basis[k])]
            IN  [sig |-> sig, b |-> b, x |-> x,
                 cases |-> {[s |-> s,
                             gen |-> GenExpr(ProdExpr([k \in 1..Len(s) |-> FamilyExpr(c.basis[k][s[k] + 1])]), c.d, b, sig),
                             rev |-> [col \in 1..c.d2 |-> RevExpr(ProdExpr([k \in 1..Len(s) |-> FamilyExpr(c.basis[k][s[k] + 1])]), c.d, sig, col)]] :
                            s \in Tuples(ns)}]
      [] c.task = "ou" ->
            LET grid == [i \in 1..2 |-> [j \in 1..(9 + c.extra) |->
                            IF j <= 9 THEN (IF i = 1 THEN ((j - 1) \div 3) - 1 ELSE ((j - 1) % 3) - 1) ELSE ((j * 3 + i) % 5) - 2 + (IF i = 1 THEN 2 ELSE -3)]]
            IN  [x |-> grid, basis |-> [k \in 1..2 |-> <<Const(k - 1), Id(k - 1), Mono(k - 1, 2, <<1, 1>>)>>],
                 eig |-> [ab \in 1..9 |-> 0 - (((ab - 1) \div 3) * c.theta[1] + ((ab - 1) % 3) * c.theta[2])]]
      [] c.task = "gen" ->
            LET x == Data(c.seed + 1, c.d, c.m)
            IN  [x |-> x, leaves |-> LeavesGeneral(x, c.basis),
                 sig |-> [l \in 1..c.m |-> IntMat(c.seed + l, c.d, c.d2)],
                 b |-> [l \in 1..c.m |-> [i \in 1..c.d |-> ((c.seed + i + l) % 5) - 2]],
                 w |-> [l \in 1..c.m |-> 1 + ((l + c.seed) % 3)]]
GBuild == out = <<>> /\ out' = <<GResult(cfg)>> /\ UNCHANGED cfg
GNext == GBuild
GEmit == out # <<>> => PrintT("@@CASE " \o ToJson([cfg |-> cfg, expect |-> out[1]]))
=============================================================================
