"""C06 on routine level: every solver / integrator / data-driven routine is called on live tensor trains (float data,
opaque values), the call is recorded as one `Routine` event, every TT found in its result becomes a live object, and
in-place operations are then applied to each returned object; the recorded trace is validated by TLC against
spec/Trace_TTPool.tla (no argument and no other live object may change; every returned TT is consistent)."""
import contextlib
import io
import random

import numpy as np

from . import record, common
from . import pool as P


def collect_tts(x, TT, out=None):
    out = [] if out is None else out
    if isinstance(x, TT):
        out.append(x)
    elif isinstance(x, (list, tuple)):
        for y in x:
            collect_tts(y, TT, out)
    return out


def dims_of(t):
    return dict(rd=[int(v) for v in t.row_dims], cd=[int(v) for v in t.col_dims], r0=int(t.ranks[0]), rN=int(t.ranks[-1]))


def scenarios(rng, variant=2):
    """yields (name, [TT arguments], thunk); variant 0: all ranks 1 (reshaped core views are Fortran-contiguous, LAPACK
    works in place), variant 1: all ranks 2, otherwise random ranks"""
    import scikit_tt.tensor_train as tt
    import scikit_tt.solvers.sle as sle
    import scikit_tt.solvers.evp as evp
    import scikit_tt.solvers.ode as ode
    import scikit_tt.data_driven.tdmd as tdmd
    import scikit_tt.data_driven.regression as reg
    import scikit_tt.data_driven.transform as tf
    import scikit_tt.data_driven.tedmd as tedmd
    import scikit_tt.slim as slim
    import scikit_tt.models as mdl
    import scikit_tt.data_driven.tgedmd as tgedmd
    import scikit_tt.data_driven.ulam as ulam
    import scikit_tt.quantum_computation as qc
    d = rng.choice([2, 3])
    dims = [2] * d

    def rk():
        return [1] + [(1 if variant == 0 else 2 if variant == 1 else rng.choice([1, 2])) for _ in range(d - 1)] + [1]
    np.random.seed(rng.randint(0, 10 ** 6))
    G = tt.rand(dims, dims, ranks=rk())
    A = G.transpose() @ G + 2 * tt.eye(dims)
    H = G + G.transpose()
    x = tt.rand(dims, [1] * d, ranks=rk())
    g = tt.rand(dims, [1] * d, ranks=rk())
    b = tt.rand(dims, [1] * d, ranks=rk())
    xn = x.copy().ortho_right()
    xn = (1 / xn.norm()) * xn
    S = np.random.rand(2, 2) - 0.5
    L = np.random.rand(2, 2, 2) - 0.5
    M = np.random.rand(2, 2, 2) - 0.5
    gen = slim.slim_mme_hom(dims, [[0, 1, 1.0], [1, 0, 2.0]], [[0, 1, 1, 0, 0.5]], cyclic=False)
    p0 = tt.ones(dims, [1] * d)
    p0 = (1 / p0.norm(p=1)) * p0
    yield 'sle.als', [A, g, b], lambda: sle.als(A, g, b, repeats=2)
    yield 'sle.mals', [A, g, b], lambda: sle.mals(A, g, b, repeats=1)
    yield 'evp.als', [H, g], lambda: evp.als(H, g, repeats=2, solver='eigh')
    yield 'evp.als(number_ev=2)', [H, g], lambda: evp.als(H, g, number_ev=2, repeats=2, solver='eig', sigma=100.0)
    yield 'evp.als(previous)', [H, g, xn], lambda: evp.als(H, g, previous=[xn], shift=-3.0, repeats=1, solver='eigh')
    yield 'evp.power_method', [A, g], lambda: evp.power_method(A, g, repeats=3, sigma=0.5)
    yield 'ode.explicit_euler', [H, x], lambda: ode.explicit_euler(H, x, [0.01, 0.02], normalize=2, progress=False)
    # a time grid starting with an empty step, over-parameterised initial value
    xr = x + x - x
    yield 'ode.explicit_euler(zero first step)', [H, xr], lambda: ode.explicit_euler(H, xr, [0.0, 0.01], threshold=0, normalize=0, progress=False)
    yield 'ode.implicit_euler', [gen, p0, g], lambda: ode.implicit_euler(gen, p0, g, [0.01, 0.02], progress=False)
    yield 'ode.trapezoidal_rule', [gen, p0, g], lambda: ode.trapezoidal_rule(gen, p0, g, [0.01, 0.02], tt_solver='mals', progress=False)
    yield 'ode.hod', [H, x, b], lambda: ode.hod(H, x, 0.01, 2, order=4, previous_value=b, normalize=2, progress=False)
    yield 'ode.adaptive_step_size', [gen, p0, g], lambda: ode.adaptive_step_size(gen, p0, g, 0.05, step_size_first=1e-3, progress=False)
    for nm, f in (('lie', ode.lie_splitting), ('strang', ode.strang_splitting), ('yoshida', ode.yoshida_splitting),
                  ('kahan_li', ode.kahan_li_splitting)):
        yield 'ode.%s_splitting' % nm, [x], (lambda f=f: f(S.copy(), L.copy(), np.eye(2), M.copy(), x, 0.05, 2, normalize=2))
    yield 'ode.tdvp1site', [H, xn], lambda: ode.tdvp1site(H, xn, 0.01, 2)
    yield 'ode.tdvp2site', [H, xn], lambda: ode.tdvp2site(H, xn, 0.01, 2)
    yield 'ode.krylov', [H, xn], lambda: ode.krylov(H, xn, 3, 0.01)
    yield 'tt.residual_error+norm', [A, g, b], lambda: (tt.residual_error(A, g, b), A.norm(), g.norm(p=2), (A @ g))
    m = 5
    X = tt.rand(dims + [m], [1] * (d + 1), ranks=[1] + [rng.choice([1, 2, 3]) for _ in range(d)] + [1])
    Y = tt.rand(dims + [m], [1] * (d + 1), ranks=[1] + [rng.choice([1, 2, 3]) for _ in range(d)] + [1])
    yield 'tdmd_exact', [X, Y], lambda: tdmd.tdmd_exact(X, Y, threshold=1e-10)
    yield 'tdmd_standard', [X, Y], lambda: tdmd.tdmd_standard(X, Y, threshold=1e-10)
    xd = np.random.rand(2, 6)
    yd = np.random.rand(2, 6)
    basis = [[tf.ConstantFunction(0), tf.Identity(0), tf.Monomial(0, 2)], [tf.ConstantFunction(1), tf.Identity(1)]]
    g2 = tt.rand([3, 2], [1, 1], ranks=[1, 2, 1])
    yield 'regression.arr', [g2], lambda: reg.arr(xd, yd, basis, g2, repeats=2, progress=False)
    yield 'regression.mandy_cm', [], lambda: reg.mandy_cm(xd, yd, [lambda t: 1.0, lambda t: t, lambda t: t * t])
    yield 'transform.basis_decomposition+hocur', [], lambda: (tf.basis_decomposition(xd, basis),
                                                               tf.hocur(xd, basis, 6, progress=False))
    yield 'tedmd.amuset_hosvd(list)', [], lambda: tedmd.amuset_hosvd(xd, [np.arange(5), np.arange(4)], [np.arange(1, 6), np.arange(2, 6)],
                                                                      basis, threshold=1e-10)


    # ---- second part of the catalogue: remaining solver entry points, constructors, models
    sm = np.array([[0.0, 1.0], [0.0, 0.0]])
    sx = np.array([[0.0, 1.0], [1.0, 0.0]])
    yield 'ode.errors_expl_euler', [H, x, g, xn], lambda: ode.errors_expl_euler(H, [x, g, xn], [0.1, 0.1])
    yield 'ode.errors_impl_euler', [H, x, g, xn], lambda: ode.errors_impl_euler(H, [x, g, xn], [0.1, 0.1])
    yield 'ode.errors_trapezoidal', [H, x, g, xn], lambda: ode.errors_trapezoidal(H, [x, g, xn], [0.1, 0.1])
    # ode.tdvp (hybrid) is not in the catalogue: it raises at the first backward one-site update (finding F16, C11)
    yield 'ode.tjm', [H, xn], lambda: ode.tjm(H, [sm, sx], [0.1, 0.2], xn, 0.01, 2)
    yield 'ode.tjm_dissipative_operator', [], lambda: ode.tjm_dissipative_operator(d, [sm, sx], [0.1, 0.2], 0.01)
    yield 'ode.tjm_jump_process_tdvp', [H, xn], lambda: ode.tjm_jump_process_tdvp(H, xn, [sm, sx], [0.1, 0.2], 0.01)
    yield 'evp.als(gevp)', [H, A, g], lambda: evp.als(H, g, operator_gevp=A, repeats=2, solver='eig')
    if variant == 1:        # micro problems of dimension >= 4 (ARPACK needs k < N - 1, eigh a valid index subset)
        # fresh operands: the arguments above may have been truncated by the in-place calls of earlier scenarios
        G3 = tt.rand(dims, dims, ranks=rk())
        A3 = G3.transpose() @ G3 + 2 * tt.eye(dims)
        g3 = tt.rand(dims, [1] * d, ranks=rk())
        yield 'evp.als(eigs)', [A3, g3], lambda: evp.als(A3, g3, number_ev=1, repeats=2, solver='eigs', sigma=1.0)
        g4 = tt.rand(dims, [1] * d, ranks=rk())
        yield 'evp.als(number_ev=3)', [A3, g4], lambda: evp.als(A3, g4, number_ev=3, repeats=1, solver='eigh')
    yield 'qc.sampling', [xn], lambda: qc.sampling(xn, [0, d - 1], 20)
    yield 'regression.mandy_fm', [], lambda: reg.mandy_fm(xd, yd, [lambda t: 1.0 + 0 * t, lambda t: t])
    yield 'transform.coordinate_major', [], lambda: tf.coordinate_major(xd, [lambda t: 1.0 + 0 * t, lambda t: t, lambda t: t * t])
    yield 'transform.function_major', [], lambda: tf.function_major(xd, [lambda t: t, lambda t: t * t])
    yield 'tedmd.amuset_hocur', [], lambda: tedmd.amuset_hocur(xd, np.arange(5), np.arange(1, 6), basis, max_rank=4)
    yield 'tgedmd.amuset_hosvd', [], lambda: tgedmd.amuset_hosvd(xd, basis, np.random.rand(2, 2, 6), b=np.random.rand(2, 6),
                                                                 threshold=1e-10, return_option='eigentensors')
    # every constructor twice: the two results are distinct live objects (no cached arrays shared between calls)
    yield 'tt.eye x2', [], lambda: (tt.eye(dims), tt.eye(dims))
    yield 'tt.ones x2', [], lambda: (tt.ones(dims, dims), tt.ones(dims, dims))
    yield 'tt.zeros+unit x2', [], lambda: (tt.zeros(dims, [1] * d), tt.zeros(dims, [1] * d), tt.unit(dims, [0] * d), tt.unit(dims, [0] * d))
    yield 'tt.uniform+rand x2', [], lambda: (tt.uniform(dims), tt.uniform(dims), tt.rand(dims, [1] * d, ranks=[1] * (d + 1)),
                                             tt.rand(dims, [1] * d, ranks=[1] * (d + 1)))
    yield 'slim.slim_mme', [], lambda: slim.slim_mme([2, 3, 2], [[[0, 1, 1.0]], [[1, 2, 2.0]], []],
                                                     [[[0, 1, 1, 0, 0.5]], [[2, 1, 0, 1, 1.5]], [[1, 0, 0, 1, 1.0]]])
    yield 'ulam.ulam_2d', [], lambda: ulam.ulam_2d(np.array([[1, 2, 1], [1, 1, 2], [2, 1, 1], [1, 2, 2]]), [2, 2], 1)
    if variant == 0:        # the model constructors do not depend on the variant
        yield 'models.ising', [], lambda: mdl.ising(3, 1.0, 0.5)
        yield 'models.qfa', [], lambda: mdl.qfa()
        yield 'models.qfan', [], lambda: mdl.qfan(2)
        yield 'models.simon', [], lambda: mdl.simon()
        yield 'models.qft+iqft', [], lambda: (mdl.qft(3), mdl.iqft(3))
        yield 'models.exciton_chain', [], lambda: mdl.exciton_chain(3, 1.0, 0.5)
        yield 'models.co_oxidation', [], lambda: (mdl.co_oxidation(3, 1e2), mdl.co_oxidation(3, 1e2, cyclic=False))
        yield 'models.fpu+kuramoto', [], lambda: (mdl.fpu_coefficients(3), mdl.kuramoto_coefficients(3, np.array([0.1, 0.2, 0.3])))
        yield 'models.toll_station', [], lambda: mdl.toll_station(2, 2)
        yield 'models.two_step_destruction', [], lambda: mdl.two_step_destruction(1.0, 2.0, 1.0, 2)


def record_routines(seed, nrounds):
    """Returns recorded traces (same format as harness/record.py)."""
    from .common import import_repo
    import_repo()
    import scikit_tt.tensor_train as tt_mod
    TT = tt_mod.TT
    rng = random.Random(seed)
    traces = []
    tid = 1
    for rnd in range(nrounds):
        # deterministic cycling: rank variant and the in-place call applied to each returned object
        variant, opshift = rnd % 3, (rnd // 3) % 4
        for name, args, thunk in scenarios(rng, variant):
            obsv = record.Observer()
            objs, events = [], []
            for a in args:
                objs.append(a)
                events.append(dict(op='NewOpaque', obs=obsv.observe(objs), **dims_of(a)))
            ev = dict(op='Routine', name=name, args=list(range(1, len(args) + 1)))
            try:
                with contextlib.redirect_stdout(io.StringIO()), common.watchdog():
                    res = thunk()
            except Exception as e:
                ev['raised'] = '%s: %s' % (type(e).__name__, e)
                ev['fresh'] = []
                events.append(ev)
                traces.append(dict(tid=tid, name=name, events=events))
                tid += 1
                continue
            fresh = []
            for t in collect_tts(res, TT):
                if any(t is o for o in objs):
                    continue
                objs.append(t)
                fresh.append(dims_of(t) if not P.metadata_problem(t) else dict(rd=[], cd=[], r0=0, rN=0))
            ev['fresh'] = fresh
            ev['obs'] = obsv.observe(objs)
            events.append(ev)
            # in-place operations on every returned object (and afterwards on the arguments)
            targets = list(range(len(args), len(objs)))[:4] + list(range(len(args)))[:2]
            for k in targets:
                t = objs[k]
                if P.metadata_problem(t) or t.ranks[0] != 1 or t.ranks[-1] != 1:
                    continue
                if not all(np.all(np.isfinite(c)) for c in t.cores):
                    continue        # e.g. exact DMD modes of singular data: the sweeps are specified for finite data
                dflt_ok = t.order >= 2
                choices = [dict(op='Ortho', a=k + 1)]
                if dflt_ok:
                    choices += [dict(op='OrthoRight', a=k + 1, s=t.order - 1, e=1, dflt=True),
                                dict(op='OrthoLeft', a=k + 1, s=0, e=t.order - 2, dflt=True),
                                dict(op='OrthoTrunc', a=k + 1, which='both', maxrank=1)]
                e2 = choices[(opshift + k) % len(choices)]
                try:
                    with common.watchdog():
                        record.perform(tt_mod, objs, e2)
                except Exception as e:
                    e2['raised'] = '%s: %s' % (type(e).__name__, e)
                    events.append(e2)
                    break
                e2['obs'] = obsv.observe(objs)
                events.append(e2)
            traces.append(dict(tid=tid, name=name, events=events))
            tid += 1
    return traces
