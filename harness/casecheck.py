"""Generic spec->code driver: a TLA+ module enumerates cases (configuration + exact expected result) with
TLC; a per-property replay function performs the real call(s) and compares."""
import importlib
import os
import time
from concurrent.futures import ProcessPoolExecutor

from . import tlc, common


def _replay_chunk(args):
    modname, fname, chunk = args
    common.import_repo()
    fn = getattr(importlib.import_module(modname), fname)
    out = []
    calls = 0
    for case in chunk:
        try:
            with common.watchdog():
                res = fn(case)
        except common.CallTimeout as e:
            res = [('timeout', 'the replay of one case did not finish (%s): a library call does not return' % e)]
        except RuntimeError as e:    # raised by the harness itself (e.g. evaluator disagrees with TLC): machinery failure
            import traceback
            res = [('harness-error:' + type(e).__name__, traceback.format_exc()[-600:])]
        except Exception as e:
            # the replay functions catch the exceptions of the library calls themselves; what arrives here is a comparison
            # that broke on a result of unexpected type / shape / content: a wrong result, reported as such
            import traceback
            res = [('unexpected-result:' + type(e).__name__, 'a returned object could not be compared with the expected result: ' +
                    traceback.format_exc()[-500:])]
        calls += 1
        for sig, msg in (res or []):
            out.append((sig, msg, case))
    return calls, out


def replay_cases(cases, modname, fname, rep, procs=None, artifacts=None):
    procs = procs or int(__import__('os').environ.get('VERIF_PROCS', '16'))
    n = max(1, min(procs, len(cases) // 20 + 1))
    chunks = [cases[i::n] for i in range(n)]
    calls = 0
    with ProcessPoolExecutor(max_workers=n) as ex:
        for c, out in ex.map(_replay_chunk, [(modname, fname, ch) for ch in chunks]):
            calls += c
            for sig, msg, case in out:
                if sig.startswith('@'):
                    if artifacts is not None:
                        artifacts.append((sig, msg))
                    continue
                if sig.startswith('harness-error'):
                    raise RuntimeError('replay function failed: ' + msg)
                rep.violation(sig, msg, dict(kind='case', replay_fn=modname + ':' + fname, case=case))
    return calls


def run(pid, tier, runs, modname, fname, assumptions, rule, sample_fn=None, extra_cov=None, level='model_checking'):
    """runs: list of dict(module=..., constants=..., nshards=..., invariants=[...], name=...)."""
    rep = common.Reporter(pid, tier)
    states = trans = ncases = 0
    samples = []
    per_run = {}
    artifacts = []
    only = os.environ.get('VERIF_ONLY')
    for r in runs:
        if only and r.get('name') not in only.split(','):
            continue
        # data salts (spec/Salt.tla): the quick tier uses VERIF_SEED (default 0), the thorough tier in addition the next
        # salts, i.e. the same configurations over different integer data
        base = common.seed()
        salts = r.get('salts') or ([base] if tier == 'quick' else [base + k for k in range(r.get('nsalts', 3))])
        for salt in salts:
            cases, st = tlc.run_sharded(r['module'], r['constants'], r.get('nshards', 16), tag=r.get('name', 'g'),
                                        invariants=[r.get('emit', 'Emit')] + list(r.get('invariants', [])),
                                        init=r.get('init', 'Init'), next_=r.get('next', 'Next'),
                                        properties=r.get('properties', []), constraints=r.get('constraints', []),
                                        timeout=r.get('timeout', 3600), salt=salt)
            states += st['distinct']
            trans += st['generated']
            ncases += len(cases)
            key = r.get('name', 'g') + ('' if salt == base else '+salt%d' % salt)
            per_run[key] = len(cases)
            if cases and salt == base:
                c = cases[len(cases) // 2]
                samples.append(sample_fn(c) if sample_fn else _trim(c))
            for c in cases:
                if isinstance(c, dict):
                    c['_salt'] = salt
            replay_cases(cases, modname, fname, rep, artifacts=artifacts)
    cov = dict(states=states, transitions=trans, traces_validated_against_impl=ncases, cases_per_run=per_run,
               samples=samples, rule=rule, exhaustive=True,
               checker_cmd='tlc -workers 1 (sharded) on spec/%s ; python replay %s:%s' % (
                   ','.join(sorted({r['module'] for r in runs})), modname, fname))
    post = getattr(importlib.import_module(modname), 'post_hook', None)
    if post and not only:
        extra = post(artifacts, rep, tier)
        if extra:
            for k in ('states', 'transitions', 'traces_validated_against_impl'):
                cov[k] += extra.pop(k, 0)
            cov.update(extra)
    if extra_cov:
        cov.update(extra_cov)
    return rep.finish(cov, assumptions, level=level)


def _trim(x, n=12):
    if isinstance(x, dict):
        return {k: _trim(v, n) for k, v in x.items()}
    if isinstance(x, list):
        return [_trim(v, n) for v in x[:n]] + (['... (%d more)' % (len(x) - n)] if len(x) > n else [])
    return x
