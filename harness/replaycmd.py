"""./check <Cxx> --replay <path>: re-run one recorded violation (a generated history, a case, or a recorded trace)."""
import importlib
import json

from . import common


def main(pid, path):
    with open(path) as f:
        rec = json.load(f)
    rp = rec['replay']
    common.import_repo()
    print('replaying %s (%s): %s' % (path, rec.get('signature'), rec.get('message', '')[:300]))
    kind = rp.get('kind')
    found = []
    if kind == 'pool_history':
        import scikit_tt.tensor_train as tt_mod
        from . import pool
        pool.replay(tt_mod, rp['history'], lambda idx, cat, msg: found.append((idx, cat, msg)))
    elif kind == 'case':
        modname, fname = rp['replay_fn'].split(':')
        fn = getattr(importlib.import_module(modname), fname)
        found = fn(rp['case']) or []
    elif kind == 'pool_trace':
        from . import tracecheck
        verdicts, _ = tracecheck.validate([[dict(rp['trace'], tid=1)]])
        if verdicts[1][0] != 'ok':
            found = [verdicts[1]]
    else:
        print('replay kind %r: re-run the check itself (./check %s)' % (kind, pid))
        return 2
    if found:
        for f in found[:5]:
            print('  still fails:', f)
        print('VIOLATION property=%s replay=%s' % (pid, path))
        return 1
    print('no violation reproduced on the current tree')
    return 0
