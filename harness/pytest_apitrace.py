"""pytest plugin: records one API trace per test function (see harness/apitrace.py).

    PYTHONPATH=/verif VERIF_APITRACE_OUT=<file> pytest -p harness.pytest_apitrace <tests>

With pytest-xdist every worker appends to its own file <file>.<worker id>.  The repository is not modified."""
import json
import os
import sys
import types

import pytest

_OUT = os.environ.get('VERIF_APITRACE_OUT')


def _stub_matplotlib():
    for name in ('matplotlib', 'matplotlib.pyplot'):
        if name not in sys.modules:
            try:
                __import__(name)
            except Exception:
                sys.modules[name] = types.ModuleType(name)


def pytest_sessionstart(session):
    if not _OUT:
        return
    _stub_matplotlib()
    from harness import apitrace
    apitrace.install()


def pytest_sessionfinish(session, exitstatus):
    if not _OUT:
        return
    from harness import apitrace
    apitrace.uninstall()


@pytest.hookimpl(hookwrapper=True)
def pytest_runtest_call(item):
    if not _OUT:
        yield
        return
    from harness import apitrace
    apitrace.TRACER.begin(item.nodeid)
    try:
        yield
    finally:
        tr = apitrace.TRACER.end()
        worker = os.environ.get('PYTEST_XDIST_WORKER', 'main')
        with open('%s.%s' % (_OUT, worker), 'a') as f:
            f.write(json.dumps(tr) + '\n')
