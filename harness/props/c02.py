"""C02 - contractions and structural rearrangements equal their dense definition."""
from .. import poolcheck

ASSUME = [
    'integer / Gaussian-integer cores; tolerance 1e-9 relative to the largest expected entry',
    'squeeze is specified for trains with at least one non-unit mode; diag for modes with column dimension 1',
    'ranks of results are only required to be consistent with the cores (not part of the documented contract)',
    'trusted base: TLC evaluation of spec/TTBase.tla (DTensordot, DConcatG, DDiag, DSqueeze, DSplit/DMerge, ...), harness/pool.py',
]
RULE = ('TLC enumerates every initial configuration (operand shapes incl. size-1 modes and rank-1 bonds, contraction '
        'mode and axis count, boundary ranks, mode factorisations, zero-block placements) of spec/TTPool.tla and every '
        'enabled contraction/structure action; each history is replayed into scikit_tt and all live objects compared')


def runs(tier):
    q = tier == 'quick'
    base = dict(MaxD=3, DimsR={1, 2}, DimsC={1, 2}, RanksS={1, 2}, Seeds={1}, MaxDepth=1, EmitAll=False,
                Vias={'matmul'}, QL=2, MaxDB=2, OWs={False, True}, Lean=False, IslLevel=0)
    out = []
    ow = {False} if q else {False, True}
    out.append(dict(name='td2', constants=dict(base, MaxD=2, MaxDB=2, Scenarios={'td'}, Ops={'Tensordot'}, OWs=ow,
                                               RanksS={2} if q else {1, 2}, KindPairs={('real', 'complex')})))
    out.append(dict(name='td3', constants=dict(base, MaxD=3, MaxDB=3, DimsC={1}, RanksS={2}, OWs=ow,
                                               Scenarios={'td'}, Ops={'Tensordot'}, KindPairs={('mixed1', 'mixedL')} if q else {('real', 'complex'), ('mixed1', 'mixedL')})))
    out.append(dict(name='tdlong', constants=dict(base, MaxD=1 if q else 2, MaxDB=4, DimsR={2, 3}, DimsC={1},
                                                  RanksS={2}, Scenarios={'td'}, OWs={False},
                                                  Ops={'Tensordot'}, KindPairs={('real', 'real')})))
    out.append(dict(name='rtd', constants=dict(base, MaxD=2 if q else 3, Scenarios={'open'}, Ops={'RankTensordot'},
                                               KindPairs={('complex', 'complex')} if q else {('real', 'real'), ('complex', 'complex')})))
    out.append(dict(name='cat', constants=dict(base, MaxD=2, DimsC={1} if q else {1, 2}, Scenarios={'pair'},
                                               Ops={'Concatenate'}, OWs=ow, KindPairs={('complex', 'real')})))
    out.append(dict(name='catop', constants=dict(base, MaxD=1 if q else 2, DimsC={1, 2} if q else {1}, Scenarios={'openpair'},
                                                 Ops={'Concatenate'}, OWs=ow, KindPairs={('real', 'real')})))
    out.append(dict(name='struct', constants=dict(base, MaxD=3, Seeds={1} if q else {1, 2}, Scenarios={'single'},
                                                  Ops={'RankTranspose', 'Diag', 'Squeeze'},
                                                  KindPairs={('real', 'real'), ('complex', 'complex')})))
    if not q:
        out.append(dict(name='struct4', constants=dict(base, MaxD=4, DimsC={1}, Scenarios={'single'},
                                                       Ops={'RankTranspose', 'Diag', 'Squeeze'}, KindPairs={('complex', 'complex')})))
    out.append(dict(name='qtt', constants=dict(base, MaxD=2, DimsR={4, 6}, DimsC={1, 4}, Scenarios={'single'},
                                               Ops={'TT2QTT'}, QL=2, KindPairs={('real', 'real'), ('complex', 'complex')})))
    if not q:
        out.append(dict(name='qtt3', constants=dict(base, MaxD=1, DimsR={4, 6, 8}, DimsC={1, 4}, Scenarios={'single'},
                                                    Ops={'TT2QTT'}, QL=3, KindPairs={('real', 'real')})))
    out.append(dict(name='qttrt', constants=dict(base, MaxD=2, DimsR={4} if q else {4, 6}, DimsC={1},
                                                 Scenarios={'single'}, Ops={'TT2QTT', 'QTT2TT'}, MaxDepth=2,
                                                 KindPairs={('complex', 'complex')})))
    out.append(dict(name='bc', nshards=1, constants=dict(base, RanksS={1, 2} if q else {1, 2, 3}, Scenarios={'ctor'},
                                                         Ops={'BuildCore'}, KindPairs={('real', 'real')})))
    out.append(dict(name='big', nshards=8, constants=dict(base, MaxD=4, MaxDB=4, DimsR={4}, DimsC={1}, RanksS={4}, Lean=True, Scenarios={'single'},
                                                          Ops={'TT2QTT', 'RankTranspose', 'Diag'}, QL=2,
                                                          KindPairs={('real', 'real')})))
    return out


def main(tier):
    return poolcheck.run('C02', tier, runs(tier), ASSUME, RULE)
