"""C10 - splitting integrators equal the composed local propagators, at the right order."""
import numpy as np
import scipy.linalg as sl

from .. import casecheck
from ..pool import contract, metadata_problem, core_arrays, carray, same_state, value_snapshot, value_changed

ASSUME = [
    'no truncation active (threshold 0, rank cap 200); integer SLIM components from spec/Splitting.tla; dense reference = ordered product of scipy expm of the embedded local generators along the stage word emitted by the specification',
    'convergence orders are measured as log2(err(h)/err(h/2)) against expm(T sum K_b) x0 with step sizes for which both errors lie between 1e-11 and 1e-2; required >= p - 0.7',
    '1-norm normalisation is outside the domain of these complex/sign-changing islands; normalize=2 is checked',
    'trusted base: TLC (words, palindromes, coefficient sums, skew-Hermitian components), scipy.linalg.expm',
]
RULE = ('TLC enumerates chain length, local dimension, interaction rank (2-D and 3-D L/M), homogeneous and site-dependent '
        'components, real generators and -iH, and emits integer components, a non-stationary state and the stage '
        'words with their coefficients; the replay compares every returned state of Lie/Strang/Yoshida/Kahan-Li with '
        'the dense product of stage propagators, measures the convergence order and checks norm preservation')

W1 = 1.0 / (2.0 - 2.0 ** (1.0 / 3.0))
W0 = -(2.0 ** (1.0 / 3.0)) / (2.0 - 2.0 ** (1.0 / 3.0))


def coef(c):
    k = c['kind']
    if k == 'rat':
        return c['n'] / c['d']
    if k == 'sym':
        return (W1 if c['s'] == 'w1' else W0) * c['n'] / c['d']
    v = c['sign'] * float('0.' + c['digits'])
    return v / 2 if k == 'dechalf' else v


def embed(K, b, width, d, n):
    return np.kron(np.kron(np.eye(n ** b), K), np.eye(n ** (d - b - width)))


def replay(case):
    import scikit_tt.solvers.ode as ode
    from scikit_tt.tensor_train import TT
    cfg, isl = case['cfg'], case['isl']
    d, n, r = cfg['d'], cfg['n'], (2 if cfg['herm'] else cfg['r'])
    comp = isl['comp']
    Ss = [carray(c['S']) for c in comp]
    Ls = [np.stack([carray(m) for m in c['L']], axis=-1) for c in comp]          # n x n x r
    Ms = [np.stack([carray(m) for m in c['M']], axis=0) for c in comp]           # r x n x n
    if not cfg['herm']:
        Ss, Ls, Ms = [a.real.copy() for a in Ss], [a.real.copy() for a in Ls], [a.real.copy() for a in Ms]
    x0 = TT(core_arrays(isl['x0']))
    x0d = contract(x0.cores).reshape(-1)
    x0snap = value_snapshot([x0])
    Kfull = []
    for b in range(d - 1):
        Kb = np.kron(Ss[b], np.eye(n)) + sum(np.kron(Ls[b][:, :, k], Ms[b + 1][k]) for k in range(Ls[b].shape[2]))
        Kfull.append(embed(Kb, b, 2, d, n))
    Kfull.append(embed(Ss[d - 1], d - 1, 1, d, n))
    G = sum(Kfull)

    def step_matrix(word, h):
        P = np.eye(n ** d, dtype=complex)
        for stg in word:
            c = coef(stg['c'])
            par = 0 if stg['st'] == 'E' else 1
            for b in range(par, d, 2):
                P = sl.expm(c * h * Kfull[b]) @ P
        return P

    def lib_args():
        if cfg['hom']:
            L, M = Ls[0].copy(), Ms[0].copy()
            if r == 1:
                L, M = L[:, :, 0], M[0]
            return Ss[0].copy(), L, np.eye(n), M
        L = [a.copy() for a in Ls]
        M = [a.copy() for a in Ms]
        if r == 1:
            L, M = [a[:, :, 0] for a in L], [a[0] for a in M]
        if cfg.get('share'):
            # equal components passed as ONE array object per list (S = [s] * d, ...), only M differs from site to site
            s0, l0, e0 = Ss[0].copy(), L[0], np.eye(n)
            return [s0] * d, [l0] * d, [e0] * d, M
        return [a.copy() for a in Ss], L, [np.eye(n) for _ in range(d)], M

    _lib_args = lib_args

    def lib_args():
        # the component arrays are the caller's: read-only (an integrator must not write into them)
        out_ = _lib_args()
        for part in out_:
            for a in (part if isinstance(part, list) else [part]):
                if isinstance(a, np.ndarray):
                    a.setflags(write=False)
        return out_

    fns = {'lie': ode.lie_splitting, 'strang': ode.strang_splitting, 'yoshida': ode.yoshida_splitting,
           'kahan_li': ode.kahan_li_splitting}
    plan = {'lie': (1 / 64, 4), 'strang': (1 / 32, 4), 'yoshida': (1 / 16, 2), 'kahan_li': (1 / 4, 2)}
    kind = ('hermitian-generator' if cfg.get('imag') else 'cplx-realstate' if cfg['xr'] else 'cplx') if cfg['herm'] else 'real'
    out = []
    for name, f in fns.items():
        word = isl['words'][name]
        h, ns = plan[name]
        try:
            S, L, I, M = lib_args()
            sol = f(S, L, I, M, x0, h, ns, threshold=0, max_rank=200, normalize=0)
            if not isinstance(sol, list) or len(sol) != ns + 1 or not same_state(sol[0], x0):
                out.append(('%s:length' % name, 'trajectory must contain the initial value and one state per step'))
                continue
            P = step_matrix(word, h)
            want = x0d.astype(complex)
            bad = False
            for k in range(1, ns + 1):
                want = P @ want
                pm = metadata_problem(sol[k])
                got = contract(sol[k].cores).reshape(-1) if not pm else None
                if pm or got.shape != want.shape or np.linalg.norm(got - want) > 1e-9 * np.linalg.norm(want):
                    out.append(('%s:value:%s' % (name, kind), 'state %d differs from the product of local propagators along the word '
                                '(relative error %.3e; d=%d n=%d r=%d hom=%r)' % (
                                    k, (np.linalg.norm(got - want) / np.linalg.norm(want)) if got is not None else np.inf, d, n, r, cfg['hom'])))
                    bad = True
                    break
            if bad:
                continue
            if name in ('lie', 'yoshida'):
                # the integrators are linear in the initial value: the same state in other units (x 2^-80, exact in floating point)
                # gives the scaled trajectory - with threshold 0 nothing may be cut, whatever the magnitude
                S4, L4, I4, M4 = lib_args()
                sol4 = f(S4, L4, I4, M4, (2.0 ** -80) * x0, h, ns, threshold=0, max_rank=200, normalize=0)
                w4 = x0d.astype(complex)
                for k in range(1, ns + 1):
                    w4 = P @ w4
                    g4 = contract(sol4[k].cores).reshape(-1) * 2.0 ** 80 if not metadata_problem(sol4[k]) else None
                    if g4 is None or g4.shape != w4.shape or np.linalg.norm(g4 - w4) > 1e-9 * np.linalg.norm(w4):
                        out.append(('%s:scaled-state:%s' % (name, kind), 'initial value scaled by 2^-80: state %d is not the scaled state of the '
                                    'unscaled run (relative error %.3e; d=%d n=%d)' % (
                                        k, (np.linalg.norm(g4 - w4) / np.linalg.norm(w4)) if g4 is not None and g4.shape == w4.shape else np.inf, d, n)))
                        break
            if name in ('lie', 'strang'):
                # second use of the caller's component arrays: integrated once, then S and L doubled in place and the step halved
                # (h (S x I + L x M) is the same, so is every state)
                S2, L2, I2, M2 = _lib_args()
                f(S2, L2, I2, M2, x0, h, ns, threshold=0, max_rank=200, normalize=0)
                seen = set()
                for part in (S2, L2):
                    for a in (part if isinstance(part, list) else [part]):
                        if id(a) not in seen:
                            seen.add(id(a))
                            a *= 2
                sol3 = f(S2, L2, I2, M2, x0, h / 2, ns, threshold=0, max_rank=200, normalize=0)
                w3 = x0d.astype(complex)
                for k in range(1, ns + 1):
                    w3 = P @ w3
                    g3 = contract(sol3[k].cores).reshape(-1) if not metadata_problem(sol3[k]) else None
                    if g3 is None or g3.shape != w3.shape or np.linalg.norm(g3 - w3) > 1e-9 * np.linalg.norm(w3):
                        out.append(('%s:second-use:%s' % (name, kind), 'component arrays S and L doubled in place between two runs, step halved: state '
                                    '%d differs from the product of local propagators (d=%d n=%d hom=%r)' % (k, d, n, cfg['hom'])))
                        break
            # convergence order
            T = h * ns
            exact = sl.expm(T * G) @ x0d
            e1 = np.linalg.norm(want - exact) / np.linalg.norm(exact)
            S, L, I, M = lib_args()
            sol2 = f(S, L, I, M, x0, h / 2, 2 * ns, threshold=0, max_rank=200, normalize=0)
            e2 = np.linalg.norm(contract(sol2[-1].cores).reshape(-1) - exact) / np.linalg.norm(exact)
            if 1e-11 < e2 and e1 < 1e-2:
                p = np.log2(e1 / e2)
                if p < isl['orders'][name] - 0.7:
                    out.append(('%s:order:%s' % (name, kind), 'measured convergence order %.2f (errors %.2e -> %.2e), expected %d' % (
                        p, e1, e2, isl['orders'][name])))
            if cfg['herm'] and not cfg.get('imag'):
                nr = [np.linalg.norm(contract(t.cores)) for t in sol]
                if max(abs(v - nr[0]) for v in nr) > 1e-9 * nr[0]:
                    out.append(('%s:norm_preserved' % name, '2-norm not preserved for a skew-Hermitian generator: %r' % (nr,)))
            S, L, I, M = lib_args()
            soln = f(S, L, I, M, x0, h, 3, threshold=0, max_rank=200, normalize=2)
            wn = x0d.astype(complex)
            for k, t in enumerate(soln[1:]):
                if abs(np.linalg.norm(contract(t.cores)) - 1) > 1e-9:
                    out.append(('%s:normalize' % name, 'normalize=2 returned a state of norm %r' % np.linalg.norm(contract(t.cores))))
                    break
                # every entry (not only the last one) is the normalised image of its predecessor
                wn = P @ wn
                wn = wn / np.linalg.norm(wn)
                g = contract(t.cores).reshape(-1)
                if g.shape != wn.shape or np.linalg.norm(g - wn) > 1e-9:
                    out.append(('%s:normalize:value:%s' % (name, kind), 'normalize=2: state %d differs from the normalised product of local '
                                'propagators (error %.3e)' % (k + 1, np.linalg.norm(g - wn) if g.shape == wn.shape else np.inf)))
                    break
        except Exception as e:
            out.append(('%s:exception:%s' % (name, type(e).__name__), '%r (cfg %r)' % (e, cfg)))
    why = value_changed(x0snap)
    if why:
        out.append(('operand_changed', 'the initial value was modified by a splitting integrator (%s)' % why))
    if np.linalg.norm(Ss[d - 1] - Ss[d - 1].T) > 0.5:
        out.append(('@nonsym', 'single-site generator of the last site is not symmetric'))
    return out


def post_hook(artifacts, rep, tier):
    n = sum(1 for sig, _ in artifacts if sig == '@nonsym')
    if n == 0:
        raise RuntimeError('no case with a non-symmetric single-site generator at the last site (vacuous islands)')
    return dict(cases_with_nonsymmetric_last_site_generator=n)


def runs(tier):
    return [dict(name='split', module='Splitting', constants=dict(Level=1 if tier == 'quick' else 2), invariants=['Inv'])]


def main(tier):
    return casecheck.run('C10', tier, runs(tier), 'harness.props.c10', 'replay', ASSUME, RULE)
