"""C09 - one-step ODE schemes reproduce their defining recurrences; estimators; adaptive controller."""
import numpy as np

from .. import casecheck
from ..pool import contract, metadata_problem, core_arrays, same_state

ASSUME = [
    'no effective truncation (threshold 0, large rank cap) and representable ranks: inner ALS/MALS guesses of maximal ranks with full-rank interfaces',
    'dyadic step sizes 2^-6..2^-8 so that |h A| <= 1 on the islands (two-step recurrences amplify rounding otherwise); defects compared with 1e-9 relative to the state norm',
    '1-norm normalisation only on its documented non-negative domain (Markov generators, positive vectors)',
    'scheme recurrences come from the polynomial tables of spec/OdeSchemes.tla and are applied by a generic polynomial-in-matrix evaluator (numpy); estimators are compared with exact squared defects computed by TLC',
    'adaptive method: step_size_min far above floating-point absorption; the recorded accepted times are validated by TLC against spec/Adaptive.tla (strictly increasing, bounded by the end time, one state per time)',
]
RULE = ('TLC enumerates islands (mode sizes, real/complex, Markov generators), schemes, step lists (incl. varying steps), '
        'HOD orders and builds exact cores, the recurrence polynomials and exact estimator values; the replay runs the '
        'integrators with ALS and MALS, both micro-solvers and normalisation 0/1/2 and checks list length, the '
        'recurrence of every step, unit norms, estimator values and unchanged inputs; the adaptive controller is model '
        'checked and its recorded time points are trace-validated')


def vec(t):
    return contract(t.cores).reshape(-1)


def poly_mat(p, Z):
    """p: list of [power, num, den] -> matrix polynomial in Z"""
    out = np.zeros_like(Z, dtype=complex)
    for power, num, den in p:
        out = out + (num / den) * np.linalg.matrix_power(Z, power)
    return out


def snapshot(ts):
    """dense value and dims of the arguments (a re-gauged but equal argument is not a changed argument)"""
    return [(t, list(t.row_dims), list(t.col_dims), contract(t.cores).copy()) for t in ts]


def changed(snaps):
    for t, rd, cd, v in snaps:
        if metadata_problem(t) or list(t.row_dims) != rd or list(t.col_dims) != cd:
            return True
        w = contract(t.cores)
        if w.shape != v.shape or np.max(np.abs(w - v)) > 1e-9 * max(1.0, float(np.max(np.abs(v)))):
            return True
    return False


def replay(case):
    import scikit_tt.solvers.ode as ode
    from scikit_tt.tensor_train import TT
    cfg, isl = case['cfg'], case['isl']
    out = []
    if cfg.get('est'):
        return replay_estimators(ode, TT, cfg, isl)
    dims = list(cfg['dims'])
    N = int(np.prod(dims))
    A = TT(core_arrays(isl['A']))
    x0 = TT(core_arrays(isl['x0']))
    guess = TT(core_arrays(isl['guess']))
    prev = TT(core_arrays(isl['prev']))
    Ad = contract(A.cores).reshape(N, N)
    steps = [2.0 ** (-e) for e in cfg['steps']]
    sch = cfg['scheme']
    P = isl['scheme']
    kind = ('cplx' if cfg['cplx'] else 'real')
    markov = cfg['op'] == 'markov'
    norms = (0, 1, 2) if markov else (0, 2)
    if markov:
        x0 = (1.0 / float(np.sum(vec(x0).real))) * x0
    variants = [(None, None)] if sch in ('explicit_euler', 'hod') else [(s, m) for s in ('als', 'mals') for m in ('solve', 'lu')]
    snaps = snapshot([A, x0, guess, prev])
    # the caller builds an identity of the same dimensions for its own purposes and overwrites its cores in place before the
    # integrators run (the schemes build their own identities: whatever they get must be the identity)
    import scikit_tt.tensor_train as tt_mod
    mine = tt_mod.eye(dims)
    for c_ in mine.cores:
        c_ *= 3.0
    for normalize in norms:
        for solver, micro in variants:
            if solver == 'mals' and len(dims) < 2:
                continue
            tag = '%s%s' % (sch, (':%s:%s' % (solver, micro)) if solver else '')
            try:
                hod_variants = [False]
                if sch == 'hod':
                    hod_variants = [False, True]
                for with_prev in hod_variants:
                    if sch == 'explicit_euler':
                        sol = ode.explicit_euler(A, x0, steps, threshold=0, max_rank=200, normalize=normalize, progress=False)
                        if normalize == 0:
                            # a time grid that starts with an empty step, and an over-parameterised initial value (x0 + x0 - x0)
                            xr = x0 + x0 - x0
                            rsnap = snapshot([xr])
                            rranks = list(xr.ranks)
                            steps0 = [0.0] + list(steps)
                            sol0 = ode.explicit_euler(A, xr, steps0, threshold=0, max_rank=200, normalize=0, progress=False)
                            for sig, msg in check_trajectory(sol0, xr, Ad, steps0, sch, P, isl, 0, False, prev, dims):
                                out.append(('%s:zero-first-step:%s:%s' % (tag, sig, kind), msg))
                            if changed(rsnap) or list(xr.ranks) != rranks:
                                out.append(('operand_changed', 'explicit_euler modified its initial value (time grid starting with a step of size 0; '
                                            'ranks %r -> %r)' % (rranks, list(xr.ranks))))
                    elif sch == 'implicit_euler':
                        # at maximal ranks the initial value itself is passed as initial guess (one object in two roles)
                        g_ = x0 if (list(x0.ranks) == list(guess.ranks) and normalize == 0) else guess
                        sol = ode.implicit_euler(A, x0, g_, steps, repeats=1, tt_solver=solver, threshold=0,
                                                 max_rank=np.inf, micro_solver=micro, normalize=normalize, progress=False)
                    elif sch == 'trapezoidal_rule':
                        g_ = x0 if (list(x0.ranks) == list(guess.ranks) and normalize == 0) else guess
                        sol = ode.trapezoidal_rule(A, x0, g_, steps, repeats=1, tt_solver=solver, threshold=0,
                                                   max_rank=np.inf, micro_solver=micro, normalize=normalize, progress=False)
                    else:
                        if normalize == 1 and not markov:
                            continue
                        if normalize == 1 and with_prev and (np.min(vec(prev).real) < 0 or np.sum(vec(prev).real) < 0.5):
                            continue      # the Manhattan norm (sum of entries) is meant for non-negative states
                        # with normalisation every state the scheme produces has unit norm, the start-up state included; a previous
                        # value handed over by the caller is given with unit norm (in a representation that is not orthonormal)
                        prev_ = prev if not normalize else (1.0 / _pnorm(vec(prev), normalize)) * prev
                        # an odd order is documented to be rounded up to the next even one
                        sol = ode.hod(A, x0, steps[0], len(steps), order=2 * cfg['m'] - (1 if len(steps) == 1 else 0),
                                      previous_value=prev_ if with_prev else None,
                                      threshold=0, max_rank=200, normalize=normalize, progress=False)
                    if sch == 'hod' and not normalize:
                        # the precomputed scheme operator 2 sum_j h^(2j-1)/(2j-1)! A^(2j-1) handed over by the caller
                        import math
                        hh, mm = steps[0], cfg['m']
                        term, ophod = A, (2 * hh) * A
                        for j in range(2, mm + 1):
                            term = term @ A @ A
                            ophod = ophod + (2 * hh ** (2 * j - 1) / math.factorial(2 * j - 1)) * term
                        sol2 = ode.hod(A, x0, hh, len(steps), order=2 * mm, previous_value=prev if with_prev else None, op_hod=ophod,
                                       threshold=0, max_rank=200, normalize=0, progress=False)
                        res2 = check_trajectory(sol2, x0, Ad, steps, sch, P, isl, normalize, with_prev, prev, dims)
                        for sig, msg in res2:
                            out.append(('%s:op_hod:%s:%s' % (tag, sig, kind), '%s (op_hod passed; dims %r, order %d)' % (msg, dims, 2 * mm)))
                    if solver == 'mals' and normalize == 0 and isinstance(sol, list) and len(sol) == len(steps) + 1:
                        # linear schemes are scale invariant: an initial value of tiny magnitude (2^-44 x0), inner solver with its
                        # default relative threshold
                        x0s = (2.0 ** -44) * x0
                        f_ = ode.implicit_euler if sch == 'implicit_euler' else ode.trapezoidal_rule
                        sols = f_(A, x0s, guess, steps, repeats=1, tt_solver='mals', threshold=1e-12, max_rank=np.inf, micro_solver=micro,
                                  normalize=0, progress=False)
                        for k_ in range(1, len(steps) + 1):
                            a_, b_ = vec(sols[k_]) * 2.0 ** 44, vec(sol[k_])
                            if a_.shape != b_.shape or np.linalg.norm(a_ - b_) > 1e-7 * max(np.linalg.norm(b_), 1e-300):
                                out.append(('%s:scaled:%s' % (tag, kind), 'initial value scaled by 2^-44: state %d is not the scaled state of the '
                                            'unscaled run (relative deviation %.3e)' % (k_, np.linalg.norm(a_ - b_) / max(np.linalg.norm(b_), 1e-300))))
                                break
                    if normalize == 0 and not with_prev and isinstance(sol, list) and len(sol) == len(steps) + 1:
                        # second use of one operator object: integrated once, re-scaled in place by the caller (first core x 2),
                        # integrated again with half the step sizes - h A is the same, so is the trajectory
                        def run_(op_, st_):
                            if sch == 'explicit_euler':
                                return ode.explicit_euler(op_, x0, st_, threshold=0, max_rank=200, normalize=0, progress=False)
                            if sch == 'hod':
                                return ode.hod(op_, x0, st_[0], len(st_), order=2 * cfg['m'], threshold=0, max_rank=200, normalize=0, progress=False)
                            f__ = ode.implicit_euler if sch == 'implicit_euler' else ode.trapezoidal_rule
                            return f__(op_, x0, guess, st_, repeats=1, tt_solver=solver, threshold=0, max_rank=np.inf, micro_solver=micro,
                                       normalize=0, progress=False)
                        A2 = A.copy()
                        run_(A2, steps)
                        A2.cores[0] = 2.0 * A2.cores[0]
                        for sig, msg in check_trajectory(run_(A2, steps), x0, 2 * Ad, steps, sch, P, isl, 0, False, prev, dims):
                            out.append(('%s:second-use:%s:%s' % (tag, sig, kind), 'operator object re-scaled in place (x 2) between two runs with the '
                                        'same step sizes: %s (dims %r)' % (msg, dims)))
                        sol2 = run_(A2, [h_ / 2 for h_ in steps])
                        for sig, msg in check_trajectory(sol2, x0, Ad, steps, sch, P, isl, 0, False, prev, dims):
                            out.append(('%s:second-use:%s:%s' % (tag, sig, kind), 'operator object re-scaled in place (x 2) between two runs, step '
                                        'sizes halved: %s (dims %r)' % (msg, dims)))
                    res = check_trajectory(sol, x0, Ad, steps, sch, P, isl, normalize, with_prev, prev, dims)
                    for sig, msg in res:
                        if sch == 'hod' and normalize:
                            sig = 'normalize:' + sig
                        out.append(('%s:%s:%s' % (tag, sig, kind), '%s (dims %r, steps 2^-%r, normalize=%d)' % (msg, dims, cfg['steps'], normalize)))
                    if res:
                        break
            except Exception as e:
                out.append(('%s:exception:%s' % (tag, type(e).__name__), '%r (dims %r)' % (e, dims)))
    if changed(snaps):
        out.append(('operand_changed', 'an argument of %s was modified' % sch))
    # ---- adaptive method (Markov islands): accepted times strictly increasing, bounded, one state per time
    if markov and sch == 'implicit_euler' and len(cfg['steps']) == 1:
        out += adaptive_case(ode, A, x0, guess, dims)
    return out


def _pnorm(v, p):
    """the library's norms: p = 1 is the sum of the entries (Manhattan norm of a non-negative vector), p = 2 Euclidean"""
    return float(np.sum(v).real) if p == 1 else float(np.linalg.norm(v))


def check_trajectory(sol, x0, Ad, steps, sch, P, isl, normalize, with_prev, prev, dims):
    if not isinstance(sol, list) or len(sol) != len(steps) + 1:
        return [('length', 'trajectory has %r entries for %d steps' % (len(sol) if isinstance(sol, list) else sol, len(steps)))]
    if not same_state(sol[0], x0):
        return [('initial', 'first entry is not the initial value')]
    xs = []
    for t in sol:
        pm = metadata_problem(t)
        if pm:
            return [('metadata', pm)]
        if list(t.row_dims) != dims:
            return [('dims', 'state dims %r' % (t.row_dims,))]
        xs.append(vec(t))
    for k, h in enumerate(steps):
        Z = h * Ad
        if sch == 'hod':
            inc = -poly_mat(P[1], Z)
            if k == 0:
                if with_prev:
                    xm1 = vec(prev)
                else:
                    Q = poly_mat(isl['start']['Q'], Z)
                    R = poly_mat(isl['start']['R'], Z)
                    xm1 = xs[0] - Q @ (R @ xs[0])
                if normalize:
                    xm1 = xm1 / _pnorm(xm1, normalize)
            else:
                xm1 = xs[k - 1]
            want = xm1 + inc @ xs[k]
            if normalize:
                want = want / _pnorm(want, normalize)
            scale = max(np.linalg.norm(xm1), np.linalg.norm(xs[k]))
            if np.linalg.norm(xs[k + 1] - want) > 1e-9 * scale:
                return [('recurrence', 'step %d violates x_{k+1} = x_{k-1} + 2 sum h^(2j-1)/(2j-1)! A^(2j-1) x_k%s: defect %.3e' % (
                    k + 1, '' if k or with_prev else ' (documented start-up)', np.linalg.norm(xs[k + 1] - want) / scale))]
            continue
        lhs = poly_mat(P[0], Z) @ xs[k + 1]
        rhs = -poly_mat(P[1], Z) @ xs[k]
        scale = max(np.linalg.norm(xs[k]), 1e-300)
        if normalize == 0:
            if np.linalg.norm(lhs - rhs) > 1e-9 * scale:
                return [('recurrence', 'step %d violates the scheme equation: relative defect %.3e' % (k + 1, np.linalg.norm(lhs - rhs) / scale))]
        else:
            alpha = (rhs.conj() @ lhs) / (rhs.conj() @ rhs)
            if abs(alpha.imag) > 1e-9 * abs(alpha) or alpha.real <= 0 or np.linalg.norm(lhs - alpha * rhs) > 1e-9 * np.linalg.norm(lhs):
                return [('recurrence', 'step %d is not a positive multiple of the scheme solution (alpha=%r)' % (k + 1, alpha))]
            nrm = float(np.sum(xs[k + 1].real)) if normalize == 1 else float(np.linalg.norm(xs[k + 1]))
            if abs(nrm - 1) > 1e-9:
                return [('norm', 'state %d has %d-norm %r' % (k + 1, normalize, nrm))]
            if normalize == 1 and np.min(xs[k + 1].real) < -1e-12:
                return [('norm', 'state %d has negative entries' % (k + 1))]
    return []


def replay_estimators(ode, TT, cfg, isl):
    A = TT(core_arrays(isl['A']))
    xs = [TT(core_arrays(c)) for c in isl['xs']]
    h = 2.0 ** (-cfg['e'])
    f = {'explicit_euler': ode.errors_expl_euler, 'implicit_euler': ode.errors_impl_euler,
         'trapezoidal_rule': ode.errors_trapezoidal}[cfg['scheme']]
    snaps = snapshot([A] + xs)
    try:
        got = f(A, xs, [h, h / 2])
    except Exception as e:
        return [('estimator:%s:exception:%s' % (cfg['scheme'], type(e).__name__), repr(e))]
    out = []
    if len(got) != 2:
        return [('estimator:%s:length' % cfg['scheme'], 'returned %d values for 2 steps' % len(got))]
    for i in range(2):
        want = np.sqrt(isl['sq'][i]['num'] / isl['sq'][i]['den'])
        if abs(got[i] - want) > 1e-9 * max(1.0, want):
            out.append(('estimator:%s:value' % cfg['scheme'], 'errors[%d] = %r, exact relative defect %r' % (i, got[i], want)))
            break
    if changed(snaps):
        out.append(('operand_changed', 'an argument of the estimator was modified'))
    return out


def adaptive_case(ode, A, x0, guess, dims):
    """adaptive method on a Markov island: several horizons, first step sizes (below, equal to and above the horizon)
    and both second methods"""
    out = []
    import json
    scen = [(0.5, 1e-3, 'two_step_Euler'), (0.125, 2.0, 'two_step_Euler'), (0.25, 0.25, 'trapezoidal_rule'),
            (0.125, 2.0, 'trapezoidal_rule'), (0.5, 0.75, 'two_step_Euler')]
    for T, h0, method in scen:
        snaps = snapshot([A, x0, guess])
        tag = 'adaptive' if (T, h0, method) == scen[0] else 'adaptive:h0=%g:T=%g:%s' % (h0, T, method)
        try:
            sol, times = ode.adaptive_step_size(A, x0, guess, T, step_size_first=h0, step_size_min=1e-9, second_method=method,
                                                progress=False)
        except Exception as e:
            out.append(('%s:exception:%s' % (tag, type(e).__name__), repr(e)))
            continue
        times = [float(t) for t in times]
        if len(sol) != len(times):
            out.append(('%s:length' % tag, '%d states for %d time points' % (len(sol), len(times))))
        if times[0] != 0 or any(b <= a for a, b in zip(times, times[1:])) or times[-1] > T:
            out.append(('%s:times' % tag, 'accepted time points are not strictly increasing within [0, T=%g]: %r' % (T, times[:8],)))
        if not same_state(sol[0], x0):
            out.append(('%s:initial' % tag, 'first entry is not the initial value'))
        for t in sol:
            pm = metadata_problem(t)
            if pm:
                out.append(('%s:metadata' % tag, pm))
                break
        if changed(snaps):
            out.append(('operand_changed', 'an argument of adaptive_step_size was modified'))
        # hand the recorded accepted times to the trace validator (spec/Trace_Adaptive.tla)
        if all(0 <= t < 1 for t in times):
            out.append(('@adaptive', json.dumps(dict(times=[limbs(t) for t in times], tend=limbs(T), nsol=len(sol)))))
    return out


def limbs(t):
    """t in [0, 1) -> two 20-bit limbs (exact integer comparisons in TLC at resolution 2^-40)"""
    a = int(np.floor(t * 2 ** 20))
    b = int(np.floor((t * 2 ** 20 - a) * 2 ** 20))
    return [a, b]


def post_hook(artifacts, rep, tier):
    """Model-check the controller (spec/Adaptive.tla) and validate the recorded time points (Trace_Adaptive.tla)."""
    import json
    import os
    import re
    from .. import tlc
    out = dict(states=0, transitions=0, traces_validated_against_impl=0)
    with tlc.Workdir() as wd:
        cfg = tlc.make_cfg(dict(T=12 if tier == 'quick' else 24, HMax=5 if tier == 'quick' else 8, FactorMax=2), spec='Spec',
                           invariants=['StrictlyIncreasing', 'Bounded', 'OnePerTime'], properties=['Terminates'])
        r = tlc.run_tlc(wd, 'Adaptive', cfg, tag='model', workers=4)
        out['states'] += r['distinct']
        out['transitions'] += r['generated']
        out['adaptive_model_states'] = r['distinct']
        traces = [dict(json.loads(m), tid=k + 1) for k, (s, m) in enumerate(artifacts) if s == '@adaptive']
        if traces:
            path = os.path.join(wd.path, 'adaptive.ndjson')
            with open(path, 'w') as f:
                for t in traces:
                    f.write(json.dumps(t) + '\n')
            cfg = tlc.make_cfg({}, spec='TraceSpec', constraints=['TMark'], postcondition='TPost')
            r = tlc.run_tlc(wd, 'Trace_Adaptive', cfg, tag='trace', workers=1, env={'TRACE_FILE': path})
            out['states'] += r['distinct']
            out['transitions'] += r['generated']
            rejected = set(int(m.group(1)) for m in re.finditer(r'<<"@@(?:BAD|REJECT)", (\d+)', r['stdout']))
            for t in traces:
                if t['tid'] in rejected:
                    rep.violation('adaptive:trace', 'recorded accepted time points rejected by spec/Trace_Adaptive.tla: %r' % (t['times'][:6],),
                                  dict(kind='adaptive_trace', trace=t))
            out['traces_validated_against_impl'] += len(traces) - len(rejected)
            out['adaptive_traces'] = len(traces)
    return out


def runs(tier):
    return [dict(name='ode', module='OdeSchemes', constants=dict(Level=1 if tier == 'quick' else 2),
                 init='OInit', next='ONext', emit='OEmit', invariants=['MarkovOK'])]


def main(tier):
    return casecheck.run('C09', tier, runs(tier), 'harness.props.c09', 'replay', ASSUME, RULE)
