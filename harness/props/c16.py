"""C16 - MANDy and ARR return (descend to) the least-squares coefficient tensor."""
import numpy as np

from .. import casecheck
from ..evaluator import ev_expr
from ..pool import contract, metadata_problem, core_arrays, value_snapshot, value_changed, caller_array
from .c15 import leaf_values, psi_from_leaves, make_fn

ASSUME = [
    'integer data; Psi is formed from the leaves emitted by spec/Regression.tla; the pseudoinverse is numpy.linalg.pinv (numeric evaluator) with the same relative cut-off',
    'threshold 0 is only used when Psi has numerically full rank min(rows, m) (1/s of a zero singular value is undefined), otherwise the relative threshold 1e-10, far below every non-zero singular-value ratio of these integer matrices (precondition: smallest non-zero ratio > 1e-6)',
    'ARR: negligible cut-off rcond = 1e-10 (with 1e-14 the exactly singular micro problems of integer data become unstable: zero singular values are computed as ~1e-16 relative and may pass the cut), guesses with integer cores and admissible ranks; residual comparison r_{k+1} <= r_k (1 + 1e-9) + 1e-9 |y| (exact fits sit at a rounding floor)',
]
RULE = ('TLC enumerates dimension, snapshot count (under-determined, square, over-determined), bases, add_one, thresholds '
        'and emits data, right-hand sides and the leaves of Psi; the replay compares mandy_cm / mandy_fm with (y pinv(Psi))^T, '
        'mandy_kb with the fitted values, and checks ARR residual monotonicity, ranks and the unchanged guess')


def scalar_fns(L, idxs):
    return [(lambda e: (lambda s: ev_expr(e, [s])))(L[k][i][0]['e']) for k, i in idxs]


def replay(case):
    import scikit_tt.data_driven.regression as reg
    from scikit_tt.tensor_train import TT
    cfg, exp = case['cfg'], case['expect']
    task = cfg['task']
    x = caller_array(np.array(exp['x'], dtype=float), len(exp['x'][0]))          # read-only, Fortran-ordered for odd m
    y = np.array(exp['y'], dtype=float)
    yim = np.array(exp['yim'], dtype=float)
    if np.any(yim != 0):
        y = y + 1j * yim
    y = caller_array(y, 0)
    m = x.shape[1]
    vals = leaf_values(exp['leaves'])
    psi = psi_from_leaves(vals)
    P = psi.reshape(-1, m)
    sv = np.linalg.svd(P, compute_uv=False)
    nz = sv[sv > 1e-9 * sv[0]] if sv[0] > 0 else sv[:0]
    if len(nz) == 0 or nz[-1] / nz[0] < 1e-6:
        return []          # outside the stated precondition
    fullrank = len(nz) == min(P.shape)
    out = []
    try:
        if task in ('mandy_cm', 'mandy_fm'):
            # threxp: 0 -> threshold 0; 10 -> 1e-10; 1 -> 1/20 (a cut-off that matters unless it is below every relevant ratio)
            thr = {0: 0.0, 10: 1e-10, 1: 0.05}[cfg['threxp']]
            if thr == 0.0 and not fullrank:
                return []
            if thr > 1e-9:
                # precondition of the property: threshold below the smallest relevant singular-value ratio, i.e. below the
                # ratios of every unfolding the left sweep and the final SVD see
                dims = list(psi.shape)
                ratios = []
                for b in range(1, len(dims)):
                    s_ = np.linalg.svd(psi.reshape(int(np.prod(dims[:b])), -1), compute_uv=False)
                    s_ = s_[s_ > 1e-9 * s_[0]]
                    ratios.append(s_[-1] / s_[0])
                if min(ratios) < 4 * thr:
                    return []
            # the TT ranks of Psi must not exceed its matrix rank for threshold 0 (zero singular values inside the sweep)
            if task == 'mandy_cm':
                phi = scalar_fns(exp['leaves'], [(0, i) for i in range(len(cfg['phi']))])
                xi = reg.mandy_cm(x, y, phi, threshold=thr)
            else:
                off = 1 if cfg['addone'] else 0
                phi = scalar_fns(exp['leaves'], [(k, off) for k in range(len(cfg['phi']))])
                xi = reg.mandy_fm(x, y, phi, threshold=thr, add_one=cfg['addone'])
            pm = metadata_problem(xi)
            if pm:
                return [('%s:metadata' % task, pm)]
            want = (y @ np.linalg.pinv(P, rcond=max(thr, 1e-13))).T
            got = contract(xi.cores).reshape(-1)
            if got.size != want.size:
                return [('%s:dims' % task, 'result has %d entries, expected %d' % (got.size, want.size))]
            got = got.reshape(want.shape)
            if thr == 0.0:
                # with threshold 0 zero singular values inside the left sweep must not occur
                ranks_ok = True
            if np.max(np.abs(got - want)) > 1e-7 * max(1.0, float(np.max(np.abs(want)))):
                out.append(('%s:value' % task, 'matricised result differs from (y pinv(Psi))^T: max abs error %.3e (d=%d m=%d thr=%g, rank %d of %r)' % (
                    np.max(np.abs(got - want)), cfg['d'], m, thr, len(nz), P.shape)))
            elif not np.iscomplexobj(y):
                # the same (integer-valued) data stored with an integer dtype
                xi2 = reg.mandy_cm(x.astype(np.int64), y.astype(np.int64), phi, threshold=thr) if task == 'mandy_cm' else \
                    reg.mandy_fm(x.astype(np.int64), y.astype(np.int64), phi, threshold=thr, add_one=cfg['addone'])
                g2 = contract(xi2.cores).reshape(-1)
                if metadata_problem(xi2) or g2.size != want.size or \
                        np.max(np.abs(g2.reshape(want.shape) - want)) > 1e-7 * max(1.0, float(np.max(np.abs(want)))):
                    out.append(('%s:value:int-dtype' % task, 'integer-typed data give a different coefficient tensor (d=%d m=%d thr=%g)' % (cfg['d'], m, thr)))
        elif task == 'mandy_kb':
            basis = [[make_fn(f) for f in mode] for mode in cfg['basis']]
            z = reg.mandy_kb(x, y, basis)
            G = P.T @ P
            fitted = y @ np.linalg.pinv(P, rcond=1e-12) @ P
            if z.shape != (y.shape[0], m) or np.max(np.abs(z @ G - fitted)) > 1e-7 * max(1.0, float(np.max(np.abs(fitted)))):
                out.append(('mandy_kb:value', 'z Gram does not reproduce the fitted values y pinv(Psi) Psi (max abs error %.3e)' %
                            (np.max(np.abs(z @ G - fitted)) if z.shape == (y.shape[0], m) else np.inf)))
        else:
            basis = lambda: [[make_fn(f) for f in mode] for mode in cfg['basis']]
            guess = TT(core_arrays(exp['guess']))
            gval = contract(guess.cores).copy()
            gsnap = value_snapshot([guess])
            res = []
            for rep in (1, 2, 3):
                sol = reg.arr(x, y, basis(), guess, repeats=rep, rcond=1e-10, progress=False)
                if not isinstance(sol, list) or len(sol) != y.shape[0]:
                    return [('arr:length', 'one coefficient train per row of y expected')]
                rr = 0.0
                for k, t in enumerate(sol):
                    pm = metadata_problem(t)
                    if pm:
                        return [('arr:metadata', pm)]
                    if list(t.ranks) != list(guess.ranks):
                        return [('arr:ranks', 'ranks %r differ from the ranks of the guess %r' % (t.ranks, guess.ranks))]
                    xi = contract(t.cores).reshape(-1)
                    rr += float(np.linalg.norm(y[k] - xi @ P) ** 2)
                res.append(np.sqrt(rr))
            if any(res[k + 1] > res[k] * (1 + 1e-9) + 1e-9 * max(1.0, float(np.linalg.norm(y))) for k in range(2)):
                out.append(('arr:descent', 'residual increases with the number of sweeps: %r' % (res,)))
            if value_changed(gsnap):
                out.append(('arr:guess_changed', 'the initial guess was modified (%s)' % value_changed(gsnap)))
            # one preallocated snapshot buffer and one basis list for two runs: first with the snapshots in reversed order,
            # then refilled in place with the data (the least-squares problem is the same up to the order of the snapshots)
            xb = np.array(x[:, ::-1], dtype=float, order='C')
            yb = np.array(y[:, ::-1], order='C')
            bl = basis()
            reg.arr(xb, yb, bl, guess, repeats=1, rcond=1e-10, progress=False)
            xb[:] = x
            yb[:] = y
            res_b = []
            for rep in (1, 2, 3):
                solb = reg.arr(xb, yb, bl, guess, repeats=rep, rcond=1e-10, progress=False)
                res_b.append(np.sqrt(sum(float(np.linalg.norm(y[k] - contract(t.cores).reshape(-1) @ P) ** 2) for k, t in enumerate(solb))))
            if any(abs(a - b) > 1e-7 * max(1.0, float(np.linalg.norm(y))) for a, b in zip(res_b, res)):
                out.append(('arr:refilled-buffer', 'ARR on a snapshot buffer that was refilled in place gives residuals %r, on fresh arrays %r' % (res_b, res)))
            # one guess per row of y, passed as a list (as tests/test_regression.py does): the same results, and the
            # guesses in the list are arguments like any other
            glist = [guess.copy() for _ in range(y.shape[0])]
            lsnap = value_snapshot(glist)
            sol_l = reg.arr(x, y, basis(), glist, repeats=3, rcond=1e-10, progress=False)
            if not isinstance(sol_l, list) or len(sol_l) != y.shape[0]:
                out.append(('arr:list:length', 'one coefficient train per row of y expected'))
            else:
                for k in range(y.shape[0]):
                    a, b = contract(sol_l[k].cores), contract(sol[k].cores)
                    if a.shape != b.shape or np.max(np.abs(a - b)) > 1e-7 * max(1.0, float(np.max(np.abs(b)))):
                        out.append(('arr:list:value', 'a list of guesses gives a different result than the single guess (row %d)' % k))
                        break
                if value_changed(lsnap):
                    out.append(('arr:list:guess_changed', 'initial guesses passed as a list were modified'))
    except Exception as e:
        out.append(('%s:exception:%s' % (task, type(e).__name__), '%r (cfg d=%d m=%d)' % (e, cfg['d'], m)))
    return out


def runs(tier):
    return [dict(name='reg', module='Regression', constants=dict(Level=1 if tier == 'quick' else 2),
                 init='RInit', next='RNext', emit='REmit')]


def main(tier):
    return casecheck.run('C16', tier, runs(tier), 'harness.props.c16', 'replay', ASSUME, RULE)
