"""C18 - tensor-based EDMD matches matrix EDMD and treats index sets independently."""
import numpy as np

from .. import casecheck
from ..pool import contract, metadata_problem, caller_array
from .c15 import leaf_values, psi_from_leaves, make_fn, candidates_deficient

ASSUME = [
    'integer data; Psi from the leaves of spec/Edmd.tla; reference: numpy eigenvalues of pinv(Psi_X^T, rcond=1e-3) Psi_Y^T (numeric evaluator)',
    'HOSVD threshold 1e-12 (Psi represented exactly); cases with a singular-value ratio of Psi_X within a factor 10 of the 1e-3 cut, with ill-conditioned spectra (two reference computations disagree by more than 1e-8) or with a zero tensor are outside the stated precondition',
    'HOCUR variant only where known finding F11 (candidate deficiency) does not apply',
]
RULE = ('TLC enumerates dimension, snapshot count, seeds, product bases and lists of 1..3 index-set pairs (lagged, lag 2, '
        'symmetrised) and emits data, leaves and pairs; the replay compares AMUSEt (HOSVD and HOCUR) eigenvalues with matrix '
        'EDMD, checks the eigen-equation for real spectra, and that the k-th result of a list call equals the single call')


def reference(P, xi, yi):
    Px, Py = P[:, xi], P[:, yi]
    s = np.linalg.svd(Px, compute_uv=False)
    if s[0] == 0:
        return None
    ratios = s / s[0]
    if np.any((ratios > 1e-4) & (ratios < 1e-2)):
        return None
    K = np.linalg.pinv(Px.T, rcond=1e-3) @ Py.T
    w = np.linalg.eigvals(K)
    # second, reduced computation for a conditioning check
    U, sv, Vh = np.linalg.svd(Px, full_matrices=False)
    keep = sv / sv[0] > 1e-3
    U, sv, Vh = U[:, keep], sv[keep], Vh[keep]
    M = Vh @ Py.T @ U @ np.diag(1 / sv)
    w2 = np.linalg.eigvals(M)
    nz = w[np.argsort(-np.abs(w))][:len(w2)]
    a = np.sort_complex(np.round(nz, 12))
    b = np.sort_complex(np.round(w2, 12))
    if len(a) != len(b) or np.max(np.abs(np.sort(a.real) - np.sort(b.real))) > 1e-8 * max(1.0, np.max(np.abs(b))):
        return None
    if np.min(np.abs(w2)) < 1e-3 * max(1.0, np.max(np.abs(w2))):
        # "non-zero eigenvalues" must be clearly non-zero: a defective zero eigenvalue (Jordan block of size k) appears
        # numerically as eigenvalues of modulus eps^(1/k) ~ 1e-5 .. 1e-4
        return None
    return K, w2, M


def hocur_reproduces(x, basis, rmax, psi):
    """precondition of the HOCUR variant: the cross approximation called exactly as amuset_hocur calls it reproduces
    Psi (whether it does is property C15 / finding F11, not C18: a uniform rank request above the true rank of one
    bond can make it raise LinAlgError on a singular cross matrix)"""
    import scikit_tt.data_driven.transform as tf
    try:
        h = tf.hocur(x, basis, rmax, repeats=1, multiplier=2, progress=False)
        got = contract(h.cores).reshape(psi.shape)
        return bool(np.max(np.abs(got - psi)) <= 1e-8 * max(1.0, float(np.max(np.abs(psi)))))
    except Exception:
        return False


def cmp_eigs(lam, w2, M):
    lam = np.asarray(lam, dtype=float)
    want = np.real(w2[np.argsort(np.abs(w2 - 1))])
    if lam.shape != want.shape:
        return 'returned %d eigenvalues, matrix EDMD has %d non-zero ones' % (len(lam), len(want))
    tol = 1e-6 * max(1.0, float(np.max(np.abs(want))))
    if np.max(np.abs(np.sort(lam) - np.sort(want))) > tol:
        # ill-conditioned (nearly defective) spectra: accept iff every returned value, completed by the reference's
        # imaginary part, is an eigenvalue of a matrix within 1e-10 ||M|| of the reduced EDMD matrix
        nrm = max(1.0, float(np.linalg.norm(M, 2)))
        E = np.random.RandomState(0).standard_normal(M.shape)
        wp = np.linalg.eigvals(M + E * (1e-12 * nrm / np.linalg.norm(E, 2)))
        if np.max(np.abs(np.sort(np.real(wp)) - np.sort(np.real(w2)))) <= 1e-8 * nrm:
            # well-conditioned spectrum (a 1e-12 perturbation moves it by less than 1e-8): the strict comparison stands
            return 'eigenvalues %r differ from matrix EDMD %r' % (np.round(lam, 6), np.round(want, 6))
        for l in lam:
            z = w2[np.argmin(np.abs(np.real(w2) - l))]
            smin = np.linalg.svd(M - (l + 1j * z.imag) * np.eye(M.shape[0]), compute_uv=False)[-1]
            if smin > 1e-10 * nrm:
                return 'eigenvalues %r differ from matrix EDMD %r' % (np.round(lam, 6), np.round(want, 6))
    # ordered by distance (of the eigenvalue, complex in general) to 1: within groups of (nearly) equal distance any
    # order is admissible, the groups themselves must appear in order
    ws = w2[np.argsort(np.abs(w2 - 1))]
    dist = np.abs(ws - 1)
    gap = 1e-6 * max(1.0, float(np.max(dist)))
    start = 0
    for k in range(1, len(ws) + 1):
        if k == len(ws) or dist[k] - dist[k - 1] > gap:
            if np.max(np.abs(np.sort(lam[start:k]) - np.sort(np.real(ws[start:k])))) > 10 * tol:
                return 'eigenvalues %r are not ordered by distance to 1 (matrix EDMD, ordered: %r)' % (np.round(lam, 6), np.round(ws, 6))
            start = k
    return None


def replay(case):
    import scikit_tt.data_driven.tedmd as tedmd
    cfg, exp = case['cfg'], case['expect']
    x = caller_array(np.array(exp['x'], dtype=float), cfg['seed'])      # read-only, Fortran-ordered for odd seeds
    m = x.shape[1]
    psi = psi_from_leaves(leaf_values(exp['leaves']))
    P = psi.reshape(-1, m)
    if np.max(np.abs(P)) == 0:
        return []
    pairs = [(np.array(p['x'], dtype=int), np.array(p['y'], dtype=int)) for p in exp['pairs']]
    refs = [reference(P, xi, yi) for xi, yi in pairs]
    if any(r is None for r in refs):
        return []
    out = []

    _basis = [[make_fn(f) for f in mode] for mode in cfg['basis']]

    def basis():
        return _basis        # one list of function objects for all calls, as a user would build it

    variants = [('hosvd', lambda xs, ys: tedmd.amuset_hosvd(x, xs, ys, basis(), threshold=1e-12)),
                # the same (integer-valued) snapshots stored with an integer dtype
                ('hosvd_int', lambda xs, ys: tedmd.amuset_hosvd(x.astype(np.int64), xs, ys, basis(), threshold=1e-12))]
    # a rank cap that cannot bind must not change anything: Psi is a sum of m elementary tensors, so every TT rank is <= m
    rcap = m
    variants.append(('hosvd_cap', lambda xs, ys: tedmd.amuset_hosvd(x, xs, ys, basis(), threshold=1e-12, max_rank=rcap)))
    # requested rank = the largest true rank of Psi (a request above the numerical rank with duplicate snapshots makes the
    # cross approximation hit singular submatrices)
    dims = list(psi.shape)
    rmax = max(int(np.linalg.matrix_rank(psi.reshape(int(np.prod(dims[:b])), -1))) for b in range(1, len(dims)))
    if not candidates_deficient(psi, rmax, 2) and hocur_reproduces(x, basis(), rmax, psi):
        variants.append(('hocur', lambda xs, ys: tedmd.amuset_hocur(x, xs, ys, basis(), max_rank=rmax, multiplier=2)))
    for name, call in variants:
        try:
            singles = [call(xi, yi) for xi, yi in pairs]
            for k, ((lam, t), (K, w2, M)) in enumerate(zip(singles, refs)):
                msg = cmp_eigs(lam, w2, M)
                if msg:
                    out.append(('%s:eigenvalues' % name, '%s (pair %d, d=%d m=%d)' % (msg, k, cfg['d'], m)))
                    break
                pm = metadata_problem(t)
                if pm:
                    out.append(('%s:metadata' % name, pm))
                    break
                if np.all(np.abs(w2.imag) < 1e-9) and len(set(np.round(np.real(w2), 6))) == len(w2):
                    Xi = contract(t.cores).reshape(P.shape[0], -1)
                    R = K @ Xi - Xi * np.asarray(lam)[None, :]
                    nz = np.linalg.norm(Xi, axis=0)
                    if Xi.shape[1] != len(lam) or np.min(nz) < 1e-12 or np.max(np.linalg.norm(R, axis=0) / nz) > 1e-5 * max(1.0, np.max(np.abs(lam))):
                        out.append(('%s:eigentensors' % name, 'eigentensors do not satisfy K xi = lambda xi (pair %d)' % k))
                        break
            if out:
                continue
            if len(pairs) > 1:
                lams, ts = call([p[0] for p in pairs], [p[1] for p in pairs])
                if not isinstance(lams, list) or len(lams) != len(pairs) or len(ts) != len(pairs):
                    out.append(('%s:batch:length' % name, 'a list of %d pairs must give %d results' % (len(pairs), len(pairs))))
                    continue
                for k in range(len(pairs)):
                    if np.asarray(lams[k]).shape != np.asarray(singles[k][0]).shape or \
                            np.max(np.abs(np.asarray(lams[k]) - np.asarray(singles[k][0]))) > 1e-9 * max(1.0, np.max(np.abs(singles[k][0]))):
                        out.append(('%s:batch:eigenvalues' % name, 'eigenvalues of pair %d in a list call differ from the single call' % k))
                        break
                    a, b = contract(ts[k].cores), contract(singles[k][1].cores)
                    if metadata_problem(ts[k]) or a.shape != b.shape or np.max(np.abs(a - b)) > 1e-8 * max(1.0, np.max(np.abs(b))):
                        out.append(('%s:batch:eigentensors' % name, 'eigentensor %d of a list call differs from the call with that pair alone '
                                    '(%d pairs)' % (k, len(pairs))))
                        break
        except Exception as e:
            out.append(('%s:exception:%s' % (name, type(e).__name__), '%r (d=%d m=%d)' % (e, cfg['d'], m)))
    if not out:
        # the same observables in tiny units (every basis function x 2^-70, exact in floating point): EDMD does not depend on the
        # scale of the basis functions, relative cut-offs must not see it either
        class _Scaled(object):
            def __init__(self, f_):
                self.f_ = f_

            def __call__(self, t_):
                return self.f_(t_) * 2.0 ** -70
        try:
            xi, yi = pairs[0]
            lam = tedmd.amuset_hosvd(x, xi, yi, [[_Scaled(f_) for f_ in mode] for mode in basis()], threshold=1e-12)[0]
            msg = cmp_eigs(lam, refs[0][1], refs[0][2])
            if msg:
                out.append(('hosvd:small-units:eigenvalues', 'every basis function scaled by 2^-70: %s (d=%d m=%d)' % (msg, cfg['d'], m)))
        except Exception as e:
            out.append(('hosvd:small-units:exception:%s' % type(e).__name__, repr(e)))
    if not out:
        # second use: one snapshot buffer and one basis list for two calls; the buffer holds other data for the first call and
        # is refilled in place with x for the second one, whose result must be that of x
        try:
            buf = np.array(x[:, ::-1] * 0.5 + 0.25, dtype=float, order='C')
            xi, yi = pairs[0]
            tedmd.amuset_hosvd(buf, xi, yi, basis(), threshold=1e-12)
            buf[:] = x
            lam = tedmd.amuset_hosvd(buf, xi, yi, basis(), threshold=1e-12)[0]
            msg = cmp_eigs(lam, refs[0][1], refs[0][2])
            if msg:
                out.append(('hosvd:second-use:eigenvalues', 'snapshot buffer refilled in place between two calls (same array and basis-list '
                            'objects): %s (d=%d m=%d)' % (msg, cfg['d'], m)))
        except Exception as e:
            out.append(('hosvd:second-use:exception:%s' % type(e).__name__, repr(e)))
    return out


def runs(tier):
    return [dict(name='edmd', module='Edmd', constants=dict(Level=1 if tier == 'quick' else 2),
                 init='EInit', next='ENext', emit='EEmit')]


def main(tier):
    return casecheck.run('C18', tier, runs(tier), 'harness.props.c18', 'replay', ASSUME, RULE)
