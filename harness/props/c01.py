"""C01 - TT arithmetic equals dense linear algebra (pool machine, single-action histories)."""
from .. import poolcheck

ASSUME = [
    'integer / Gaussian-integer cores (exactly representable in float64); comparison tolerance 1e-9 relative to the largest expected entry',
    'Norm(1) is only specified on entry-wise non-negative real data (documented domain)',
    'trusted base: TLC evaluation of spec/TTBase.tla, harness/pool.py (own einsum contraction of .cores)',
]
RULE = ('TLC enumerates every initial configuration (all shape vectors within MaxD/Dims/Ranks x fill kinds x seeds) of '
        'spec/TTPool.tla and every enabled value-level action; each emitted history (initial integer cores + one API '
        'call + exact expected abstract post-state) is replayed into scikit_tt and every live object is projected '
        'and compared; distinct = distinct TLC states')

UNARY = {'Full', 'Matricize', 'Elements', 'Norm2', 'Copy', 'Conj', 'SMul', 'Transpose', 'IsOperator'}


def runs(tier):
    q = tier == 'quick'
    R = {1, 2} if q else {1, 2, 3}
    base = dict(MaxD=3, DimsR={1, 2}, DimsC={1, 2}, RanksS=R, Seeds={1}, MaxDepth=1, EmitAll=False, Vias={'matmul'}, QL=1, MaxDB=1, OWs={False, True}, Lean=False, IslLevel=0)
    out = []
    out.append(dict(name='unary', constants=dict(base, Scenarios={'single'}, Ops=UNARY,
                                                 KindPairs={('real', 'real'), ('complex', 'complex')})))
    out.append(dict(name='binary', constants=dict(base, Scenarios={'same'}, Ops={'Add', 'Sub'}, RanksS={1, 2},
                                                  KindPairs={('real', 'real'), ('complex', 'real')})))
    out.append(dict(name='mmr', constants=dict(base, Scenarios={'chain'}, Ops={'MatMul'}, RanksS={1, 2}, KindPairs={('real', 'real')})))
    out.append(dict(name='mmc', constants=dict(base, Scenarios={'chain'}, Ops={'MatMul'}, RanksS={1, 2}, Vias={'dot'},
                                               KindPairs={('complex', 'complex')})))
    # mixed dtypes inside one train (first core real / only the last core complex)
    out.append(dict(name='unarymix', constants=dict(base, Scenarios={'single'}, Ops={'Full', 'Norm2', 'Conj', 'SMul', 'Transpose', 'Copy'},
                                                    RanksS={2}, Lean=True, KindPairs={('mixed1', 'mixed1'), ('mixedL', 'mixedL')})))
    out.append(dict(name='mmmix', constants=dict(base, Scenarios={'chain'}, Ops={'MatMul'}, RanksS={2}, Lean=True,
                                                 KindPairs={('mixed1', 'mixedL'), ('mixedL', 'real')})))
    # beyond toy sizes: order 4 and 5, mode size 4, rank 4 (vector-type trains, one shape per order)
    out.append(dict(name='big', nshards=4, constants=dict(base, MaxD=5, DimsR={4}, DimsC={1}, RanksS={4}, Lean=True, Scenarios={'same'},
                                                          Ops={'Add', 'Sub', 'Full', 'Conj', 'SMul', 'Transpose', 'Copy', 'Elements'},
                                                          KindPairs={('complex', 'real')})))
    # stale-state histories: a sweep, an overwriting call that changes the object, then an observer
    out.append(dict(name='stale3', constants=dict(base, MaxD=3, DimsR={2}, DimsC={1, 2}, RanksS={2}, Scenarios={'single'}, MaxDepth=3,
                                                  OWs={True}, Lean=True,
                                                  OpsAt=[{'OrthoLeft', 'OrthoRight', 'Ortho'}, {'RankTranspose', 'Transpose', 'Conj', 'SMul'},
                                                         {'Norm2', 'Full', 'Matricize'}], KindPairs={('complex', 'complex')})))
    out.append(dict(name='norm1', constants=dict(base, Scenarios={'single'}, Ops={'Norm1', 'Norm2'}, KindPairs={('pos', 'pos')},
                                                 Seeds={1, 2})))
    out.append(dict(name='lin', constants=dict(base, RanksS={1, 2}, Scenarios={'lin'}, Ops={'Residual'},
                                               KindPairs={('real', 'real'), ('complex', 'complex')})))
    out.append(dict(name='ctor', nshards=1, constants=dict(base, Scenarios={'ctor'}, KindPairs={('real', 'real')},
                                                Ops={'Zeros', 'Ones', 'Eye', 'Unit', 'Uniform'})))
    if not q:
        # order 4: vector-type trains (column dims 1) and operators with row dims 2
        v4 = dict(base, MaxD=4, DimsC={1}, RanksS={1, 2})
        out.append(dict(name='unary4', constants=dict(v4, Scenarios={'single'}, Ops=UNARY, Lean=True,
                                                      KindPairs={('complex', 'complex')})))
        out.append(dict(name='binary4', constants=dict(v4, Scenarios={'same'}, Ops={'Add', 'Sub'}, KindPairs={('complex', 'real')})))
        out.append(dict(name='mm4', constants=dict(base, MaxD=4, DimsR={2}, DimsC={1, 2}, RanksS={1, 2}, Scenarios={'chain'},
                                                   Ops={'MatMul'}, KindPairs={('complex', 'real')})))
        out.append(dict(name='unary_s2', constants=dict(base, RanksS={1, 2}, Seeds={2, 3}, Scenarios={'single'}, Ops=UNARY,
                                                        KindPairs={('complex', 'complex')})))
    return out


def main(tier):
    return poolcheck.run('C01', tier, runs(tier), ASSUME, RULE)
