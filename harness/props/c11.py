"""C11 - TDVP and Krylov propagators are exact on representable dynamics and conservative."""
import numpy as np
import scipy.linalg as sl

from .. import casecheck
from ..pool import contract, metadata_problem, core_arrays, same_state, value_snapshot, value_changed

ASSUME = [
    'initial states are right-orthonormal and normalised (the algorithms of the cited reference start from a right-canonical state; the library\'s own caller orthonormalises first); Krylov needs a normalised state',
    'Hermitian islands with exact integer cores, dyadic steps with |h H| <= 1; exactness tolerance 1e-8, conservation 1e-9; reference scipy.linalg.expm of the exact dense H (numeric evaluator)',
    'tdvp2site / tdvp are called with threshold 0 and a rank cap above the maximal ranks',
    'hybrid tdvp: known finding F16 (last bond saturated -> unset left environment); the sweep protocol of all drivers is model-checked by TLC (spec/Sweep.tla) and the helper calls of the real drivers (als, mals, evp, tdvp1, tdvp2, hybrid, arr; helpers wrapped from the harness under SCIKIT_TT_VERIF=1) are recorded and validated against spec/Trace_Sweep.tla in this check',
]
RULE = ('TLC enumerates mode sizes, operator ranks, definite/indefinite, real/complex and every admissible rank profile of '
        'the initial state and builds exact cores; the replay runs tdvp1site, tdvp2site, tdvp and krylov and checks list '
        'shape, exactness at maximal ranks, norm/energy conservation of tdvp1site at all ranks, full-space Krylov '
        'exactness and unchanged arguments; TLC model-checks EnvDefined/EnvFresh of every sweep driver for D = 1..6')


def vec(t):
    return contract(t.cores).reshape(-1)


def replay(case):
    import scikit_tt.solvers.ode as ode
    from scikit_tt.tensor_train import TT
    cfg, isl = case['cfg'], case['isl']
    if cfg.get('weak'):
        return replay_weak(ode, TT, cfg, isl)
    if cfg.get('hop'):
        return replay_hop(ode, TT, cfg, isl, case['maxranks'])
    dims = list(cfg['dims'])
    d = len(dims)
    N = int(np.prod(dims))
    H = TT(core_arrays(isl['H']))
    x0 = TT(core_arrays(isl['x0']))
    x0 = x0.ortho_right()
    x0 = (1.0 / x0.norm()) * x0
    Hd = contract(H.cores).reshape(N, N)
    x0d = vec(x0)
    h = 2.0 ** (-cfg['e'])
    n = cfg['steps']
    U = sl.expm(-1j * h * Hd)
    full = list(cfg['r0']) == list(case['maxranks'])
    kind = 'cplx' if cfg['cplx'] else 'real'
    out = []
    snaps = value_snapshot([H, x0])

    def traj_ok(sol, name):
        if not isinstance(sol, list) or len(sol) != n + 1:
            out.append(('%s:length' % name, 'returned %r entries for %d steps' % (len(sol) if isinstance(sol, list) else type(sol), n)))
            return None
        if not same_state(sol[0], x0):
            out.append(('%s:initial' % name, 'first entry is not the initial state'))
            return None
        xs = []
        for t in sol:
            pm = metadata_problem(t)
            if pm or list(t.row_dims) != dims:
                out.append(('%s:metadata' % name, pm or 'dims %r' % (t.row_dims,)))
                return None
            xs.append(vec(t))
        return xs

    def exact(xs, name):
        want = x0d.astype(complex)
        for k in range(1, n + 1):
            want = U @ want
            err = np.linalg.norm(xs[k] - want)
            if err > 1e-8:
                out.append(('%s:exact:%s' % (name, kind), 'maximal ranks: state %d differs from exp(-i k h H) x0 by %.3e (dims %r)' % (k, err, dims)))
                return

    try:
        xs = traj_ok(ode.tdvp1site(H, x0, h, n), 'tdvp1site')
        if xs is not None:
            if full:
                exact(xs, 'tdvp1site')
            nr = [np.linalg.norm(v) for v in xs]
            en = [np.real(v.conj() @ Hd @ v) for v in xs]
            if max(abs(v - nr[0]) for v in nr) > 1e-9:
                out.append(('tdvp1site:norm:%s' % kind, 'norm not conserved: %r (ranks %r)' % (nr, cfg['r0'])))
            elif max(abs(v - en[0]) for v in en) > 1e-9 * max(1.0, abs(en[0]), float(np.max(np.abs(Hd)))):
                out.append(('tdvp1site:energy:%s' % kind, 'energy not conserved: %r (ranks %r)' % (en, cfg['r0'])))
    except Exception as e:
        out.append(('tdvp1site:exception:%s' % type(e).__name__, repr(e)))
    if d >= 2:
        try:
            xs = traj_ok(ode.tdvp2site(H, x0, h, n, threshold=0, max_rank=64), 'tdvp2site')
            if xs is not None and full:
                exact(xs, 'tdvp2site')
        except Exception as e:
            out.append(('tdvp2site:exception:%s' % type(e).__name__, repr(e)))
    # normalisation switched on: the initial state has unit 2-norm and the evolution is unitary, so every entry of the
    # trajectory is still exp(-i k h H) x0 at maximal ranks
    if full:
        for name, f, kw2 in (('tdvp1site', ode.tdvp1site, {}), ('tdvp2site', ode.tdvp2site, dict(threshold=0, max_rank=64))):
            if name == 'tdvp2site' and d < 2:
                continue
            try:
                xs = traj_ok(f(H, x0, h, n, normalize=2, **kw2), name + ':normalize')
                if xs is not None:
                    exact(xs, name + ':normalize')
            except Exception as e:
                out.append(('%s:normalize:exception:%s' % (name, type(e).__name__), repr(e)))
        # second use of one operator object: evolved once, re-scaled in place by the caller (first core x 2), evolved again with
        # half the step size - h H is the same, so is every state
        for name, f, kw2 in (('tdvp1site', ode.tdvp1site, {}), ('tdvp2site', ode.tdvp2site, dict(threshold=0, max_rank=64))):
            if name == 'tdvp2site' and d < 2:
                continue
            try:
                H2 = H.copy()
                f(H2, x0, h, n, **kw2)
                H2.cores[0] = 2.0 * H2.cores[0]
                xs = traj_ok(f(H2, x0, h / 2, n, **kw2), name + ':second-use')
                if xs is not None:
                    exact(xs, name + ':second-use')
                # ... and with the same step size: the evolution under 2H
                xs = traj_ok(f(H2, x0, h, n, **kw2), name + ':second-use')
                if xs is not None:
                    U2 = U @ U
                    want = x0d.astype(complex)
                    for k in range(1, n + 1):
                        want = U2 @ want
                        if np.linalg.norm(xs[k] - want) > 1e-8:
                            out.append(('%s:second-use:exact:%s' % (name, kind), 'operator object re-scaled in place (x 2) between two runs: state %d '
                                        'differs from exp(-i k h 2H) x0 by %.3e (dims %r)' % (k, np.linalg.norm(xs[k] - want), dims)))
                            break
            except Exception as e:
                out.append(('%s:second-use:exception:%s' % (name, type(e).__name__), repr(e)))
    try:
        xs = traj_ok(ode.tdvp(H, x0, h, n, threshold=0, max_rank=64), 'tdvp')
        if xs is not None and full:
            if d == 1 and all(np.linalg.norm(v - x0d) <= 1e-12 for v in xs) and np.linalg.norm(U @ x0d - x0d) > 1e-8:
                # classifier of known finding F24: both sweep loops of the hybrid driver are empty for a single core
                out.append(('tdvp:order1-not-evolved', 'hybrid tdvp returned the initial state at every step of an order-1 train (dims %r)' % (dims,)))
            else:
                exact(xs, 'tdvp')
    except Exception as e:
        # classifier of known finding F15: the backward sweep of the hybrid driver starts with a one-site update at the
        # last core (last bond saturated) whose left environment was never built (identified at the failing call site)
        sat = False
        tb = e.__traceback__
        while tb is not None:
            fr = tb.tb_frame
            if fr.f_code.co_name == 'tdvp':
                loc = fr.f_locals
                i_, sl_ = loc.get('i'), loc.get('stack_left_op')
                sat = i_ == d - 1 and sl_ is not None and sl_[i_] is None
            tb = tb.tb_next
        out.append(('tdvp:last-bond-one-site' if sat else 'tdvp:exception:%s' % type(e).__name__,
                    'hybrid tdvp raised %r (initial ranks %r, dims %r)' % (e, x0.ranks, dims)))
    # the same dynamics in other units: operator x 2^-44, times x 2^44 (exp(-i t H) is unchanged)
    if full:
        Hs = (2.0 ** -44) * H
        for name, f, kw2 in (('tdvp1site', ode.tdvp1site, {}), ('tdvp2site', ode.tdvp2site, dict(threshold=0, max_rank=64))):
            if name == 'tdvp2site' and d < 2:
                continue
            try:
                xs = traj_ok(f(Hs, x0, h * 2.0 ** 44, n, **kw2), name + ':rescaled')
                if xs is not None:
                    exact(xs, name + ':rescaled')
            except Exception as e:
                out.append(('%s:rescaled:exception:%s' % (name, type(e).__name__), repr(e)))
    if N >= 2:
        try:
            # the Krylov space of (H, x0) must really be the whole space (no Lanczos breakdown)
            Kmat = np.stack([np.linalg.matrix_power(Hd, k) @ x0d for k in range(N)], axis=1)
            cn = np.linalg.norm(Kmat, axis=0)
            if not np.all(np.isfinite(cn)) or np.min(cn) <= 1e-12 * np.max(cn):
                raise StopIteration          # H^k x0 vanishes: the Krylov space is a proper subspace
            sv = np.linalg.svd(Kmat / cn, compute_uv=False)
            if sv[-1] < 1e-5:
                raise StopIteration
            t = ode.krylov(H, x0, N, h * 8, threshold=0, max_rank=64)
            pm = metadata_problem(t)
            if pm:
                out.append(('krylov:metadata', pm))
            else:
                want = sl.expm(-1j * h * 8 * Hd) @ x0d
                err = np.linalg.norm(vec(t) - want)
                if err > 1e-8:
                    out.append(('krylov:exact:%s' % kind, 'Krylov space = state space: result differs from exp(-i h H) x0 by %.3e (dims %r)' % (err, dims)))
                else:
                    # the same propagation in other units (operator x 2^-44, time x 2^44), default threshold
                    t2 = ode.krylov((2.0 ** -44) * H, x0, N, h * 8 * 2.0 ** 44)
                    if metadata_problem(t2) or np.linalg.norm(vec(t2) - want) > 1e-7:
                        out.append(('krylov:rescaled:%s' % kind, 'operator x 2^-44 with time x 2^44: result differs from exp(-i t H) x0 by %.3e (dims %r)' % (
                            np.linalg.norm(vec(t2) - want) if not metadata_problem(t2) else np.inf, dims)))
        except StopIteration:
            pass
        except Exception as e:
            out.append(('krylov:exception:%s' % type(e).__name__, repr(e)))
    why = value_changed(snaps)
    if why:
        out.append(('operand_changed', 'the operator or the initial state was modified (%s)' % why))
    return out


def replay_hop(ode, TT, cfg, isl, maxranks):
    """hopping chain, basis state |0..010..0> stored with maximal ranks (zero padding, right-orthonormalised by the library):
    at maximal ranks one- and two-site TDVP are exact, whatever weight the bond directions carry"""
    dims = list(cfg['dims'])
    d = len(dims)
    N = int(np.prod(dims))
    H = TT(core_arrays(isl['H']))
    Hd = contract(H.cores).reshape(N, N)
    if np.max(np.abs(Hd - Hd.conj().T)) > 0:
        raise RuntimeError('hopping chain of the specification is not Hermitian')
    rk = list(maxranks)
    cores = []
    for k in range(d):
        c = np.zeros((rk[k], 2, 1, rk[k + 1]))
        c[0, 1 if k == cfg['site'] - 1 else 0, 0, 0] = 1.0
        cores.append(c)
    x0 = TT(cores).ortho_right()
    x0d = vec(x0)
    if abs(np.linalg.norm(x0d) - 1) > 1e-12 or list(x0.ranks) != rk:
        return []        # the preparation did not keep the padded representation: scenario not applicable
    h = 2.0 ** (-cfg['e'])
    n = cfg['steps']
    U = sl.expm(-1j * h * Hd)
    out = []
    for name, f in (('tdvp1site', lambda: ode.tdvp1site(H, x0, h, n)),
                    ('tdvp2site', lambda: ode.tdvp2site(H, x0, h, n, threshold=0, max_rank=64))):
        try:
            sol = f()
            want = x0d.astype(complex)
            for k in range(1, n + 1):
                want = U @ want
                err = np.linalg.norm(vec(sol[k]) - want)
                if err > 1e-9:
                    out.append(('%s:exact:padded' % name, 'maximal ranks, basis state with zero-padded bonds, hopping chain of %d sites: state %d '
                                'differs from exp(-i k h H) x0 by %.3e (ranks %r -> %r)' % (d, k, err, x0.ranks, sol[k].ranks)))
                    break
        except Exception as e:
            out.append(('%s:padded:exception:%s' % (name, type(e).__name__), repr(e)))
    return out


def replay_weak(ode, TT, cfg, isl):
    """maximal ranks, Schmidt values ~1e-7, non-entangling H: with the default threshold 1e-12 nothing may be cut"""
    dims = list(cfg['dims'])
    N = int(np.prod(dims))
    H = TT(core_arrays(isl['H']))
    x0 = TT(core_arrays(isl['x0']))
    x0 = x0.ortho_right()
    x0 = (1.0 / x0.norm()) * x0
    Hd = contract(H.cores).reshape(N, N)
    x0d = vec(x0)
    h = 2.0 ** (-cfg['e'])
    n = cfg['steps']
    U = sl.expm(-1j * h * Hd)
    out = []
    for name, f in (('tdvp2site', lambda: ode.tdvp2site(H, x0, h, n, threshold=1e-12, max_rank=64)),
                    ('tdvp1site', lambda: ode.tdvp1site(H, x0, h, n))):
        try:
            sol = f()
            want = x0d.astype(complex)
            for k in range(1, n + 1):
                want = U @ want
                err = np.linalg.norm(vec(sol[k]) - want)
                if err > 1e-9:
                    out.append(('%s:exact:weak' % name, 'maximal ranks, weakly entangled state, threshold 1e-12: state %d differs from '
                                'exp(-i k h H) x0 by %.3e (ranks %r -> %r)' % (k, err, x0.ranks, sol[k].ranks)))
                    break
        except Exception as e:
            out.append(('%s:exception:%s' % (name, type(e).__name__), repr(e)))
    return out


def post_hook(artifacts, rep, tier):
    """Model-check the sweep protocol of every driver (spec/Sweep.tla)."""
    from .. import tlc
    out = dict(states=0, transitions=0, traces_validated_against_impl=0, sweep_protocol={})
    with tlc.Workdir() as wd:
        for drv in ('als', 'mals', 'evp', 'tdvp1', 'tdvp2', 'hybrid', 'arr'):
            for D in range(1, 7 if tier == 'quick' else 9):
                if drv in ('mals', 'tdvp2') and D < 2:
                    continue
                cfg = tlc.make_cfg(dict(D=D, Driver=drv, Repeats=2), spec='Spec', invariants=['EnvDefined', 'EnvFresh'])
                r = tlc.run_tlc(wd, 'Sweep', cfg, tag='%s%d' % (drv, D), workers=1, allow_violation=True)
                out['states'] += r['distinct']
                out['transitions'] += r['generated']
                viol = 'is violated' in r['stdout']
                out['sweep_protocol']['%s:D%d' % (drv, D)] = 'EnvDefined violated' if viol else 'holds'
                if viol and drv != 'hybrid':
                    rep.violation('sweep:%s' % drv, 'sweep protocol model of driver %s violates EnvDefined/EnvFresh for D=%d' % (drv, D),
                                  dict(kind='sweep_model', driver=drv, D=D))
                if not viol and 'No error has been found' not in r['stdout']:
                    raise RuntimeError('Sweep model check failed for %s D=%d' % (drv, D))
    # ---- code -> spec: recorded helper-call traces of the real drivers against the protocol (spec/Trace_Sweep.tla)
    from .. import sweeptrace, common
    common.import_repo()
    traces = sweeptrace.record_all(common.seed())
    verdicts, r = sweeptrace.validate(traces)
    out['states'] += r['distinct']
    out['transitions'] += r['generated']
    acc = 0
    for k, t in enumerate(traces):
        v = verdicts.get(k + 1)
        if not t.get('bound', True):
            rep.note('sweep trace of driver %s not bound (helper renamed or re-shaped): skipped' % t['driver'])
            continue
        if v is None and t['raised'] is None:
            acc += 1
            continue
        clause = ':'.join((v or 'raised').split(':')[1:]) if v else 'raised'
        rep.violation('sweeptrace:%s:%s' % (t['driver'], clause),
                      'helper-call trace of driver %s (order %d) rejected by spec/Trace_Sweep.tla: %s; raised: %s; last events %r' % (
                          t['driver'], t['D'], v, t['raised'], t['events'][-3:]), dict(kind='sweep_trace', trace=t))
    out['traces_validated_against_impl'] += acc
    out['sweep_traces_recorded'] = len(traces)
    out['sweep_trace_events'] = sum(len(t['events']) for t in traces)
    return out


def runs(tier):
    return [dict(name='tdvp', module='Tdvp', constants=dict(Level=1 if tier == 'quick' else 2),
                 init='TInit', next='TNext', emit='TEmit')]


def main(tier):
    return casecheck.run('C11', tier, runs(tier), 'harness.props.c11', 'replay', ASSUME, RULE)
