"""C06 - operands keep their value: no hidden mutation or aliasing across calls (pool histories)."""
from .. import poolcheck

ASSUME = [
    'value semantics is the reference: an action may change only the objects its event lists under "mod"; '
    'self after an overwrite=True svd/pinv is treated as consumed (its documented state is unspecified)',
    'objects whose value the model does not predict (after an effective truncation; factors of a decomposition) are '
    'still required to have consistent metadata and must not be changed by later calls on other objects '
    '(their observed value is frozen and compared)',
    'routine level: every solver / integrator / data-driven routine is called on live trains (float data, opaque values), recorded as a Routine event and followed by in-place calls on the returned objects and the arguments; the traces are validated by TLC (spec/Trace_TTPool.tla: no non-target object may change its value id, every returned TT is consistent)',
    'trusted base: TLC evaluation of spec/TTPool.tla, harness/pool.py projection',
]
RULE = ('TLC enumerates all histories  create operands -> producer call(s) -> in-place call(s) on ANY live object  '
        'within the bounds (shapes with rank-1 bonds and size-1 modes, where LAPACK works in place); after every '
        'step the replay projects every live object and compares it with the model state (exact integers)')

OBS = {'Full', 'Matricize', 'Elements', 'Norm2', 'IsOperator'}
UNARY = {'SMul', 'Transpose', 'Conj', 'Copy', 'RankTranspose', 'Diag', 'Squeeze', 'Svd', 'Pinv'} | OBS
INPLACE = {'OrthoLeft', 'OrthoRight', 'Ortho', 'OrthoTrunc', 'Svd', 'Pinv', 'Transpose', 'Conj', 'RankTranspose'}
BINARY = {'Add', 'Sub', 'MatMul', 'Tensordot', 'Concatenate', 'Residual'}


def runs(tier):
    q = tier == 'quick'
    base = dict(MaxD=3, MaxDB=2, DimsR={2}, DimsC={1, 2}, RanksS={1, 2}, Seeds={1}, MaxDepth=2, EmitAll=False,
                Vias={'matmul'}, QL=2, OWs={False, True}, Lean=True, IslLevel=0)
    real = {('real', 'real')}
    both = {('real', 'real'), ('complex', 'complex')}
    out = []
    # unary producer, then in-place on the result or the operand
    out.append(dict(name='u2', constants=dict(base, Scenarios={'single'}, OpsAt=[UNARY, INPLACE],
                                              KindPairs=real if q else both)))
    # size-1 modes (squeeze, diag) with vectors
    out.append(dict(name='u2s', constants=dict(base, DimsR={1, 2}, DimsC={1}, Scenarios={'single'},
                                               OpsAt=[{'Squeeze', 'Diag', 'Copy', 'SMul', 'Norm2'}, INPLACE], KindPairs=real)))
    # binary producers
    out.append(dict(name='b2', constants=dict(base, MaxD=2 if q else 3, Scenarios={'same'}, OpsAt=[{'Add', 'Sub', 'MatMul'}, INPLACE],
                                              KindPairs=real)))
    out.append(dict(name='td2', constants=dict(base, MaxD=2, MaxDB=3, DimsC={1}, Scenarios={'td'}, OWs={False},
                                               OpsAt=[{'Tensordot'}, {'OrthoLeft', 'OrthoRight', 'Ortho', 'OrthoTrunc'}],
                                               KindPairs=real)))
    out.append(dict(name='cat2', constants=dict(base, MaxD=2, DimsC={1}, Scenarios={'pair'},
                                                OpsAt=[{'Concatenate'}, INPLACE], KindPairs=real)))
    out.append(dict(name='lin2', constants=dict(base, MaxD=2, Scenarios={'lin'}, OpsAt=[{'Residual', 'MatMul'}, INPLACE],
                                                KindPairs=real)))
    # documented error paths: an inadmissible call raises and changes no live object
    out.append(dict(name='rej', constants=dict(base, MaxD=2, DimsR={2}, DimsC={1, 2}, RanksS={2}, Scenarios={'pair', 'openpair'}, MaxDepth=1,
                                               OpsAt=[{'Reject'}], KindPairs=real)))
    # constructors: a result is swept in place, then the same constructor is asked again (no module-level state shared by results)
    CT = {'Zeros', 'Ones', 'Eye', 'Unit', 'Uniform'}
    out.append(dict(name='ctor3', nshards=4, constants=dict(base, MaxD=2, DimsR={2}, DimsC={2}, RanksS={1}, MaxDepth=3, Scenarios={'ctor'},
                                                            OpsAt=[CT, {'OrthoLeft', 'OrthoRight', 'Ortho'}, CT], KindPairs=real)))
    # two producers then one in-place call (two live results of the same operand)
    out.append(dict(name='u3', constants=dict(base, MaxD=2 if q else 3, MaxDepth=3, Scenarios={'single'},
                                              OpsAt=[{'SMul', 'Copy', 'Transpose', 'Conj', 'RankTranspose', 'Diag'},
                                                     {'SMul', 'Copy', 'Transpose', 'Norm2', 'Svd'},
                                                     {'OrthoLeft', 'OrthoRight', 'Ortho', 'Svd'}], KindPairs=real)))
    return out


def main(tier):
    return poolcheck.run('C06', tier, runs(tier), ASSUME, RULE, traces=(800, 6, 24) if tier == "quick" else (8000, 8, 240),
                         api_traces=(tier != "quick"))


def selftest():
    from .. import tracecheck
    return tracecheck.selftest()
