"""C13 - bundled models are generators, unitaries or Hermitian / equal their defining formulas."""
import numpy as np

from .. import casecheck
from ..pool import contract, metadata_problem, carray

ASSUME = [
    'sizes start at 2 sites/species/lanes (chain constructions need distinct first and last cores); integer parameters where a formula is compared exactly',
    'generator checks are relative to the largest entry of the operator (rates span 1e-2..1e8); models too large to matricise are checked for vanishing column sums in TT form (ones-vector contraction)',
    'unitarity of the 12-qubit Shor oracle is checked in TT form with the library arithmetic (covered by C01)',
    'Kuramoto: the coefficient tensor is multilinear in (1, sin x_j) and (1, cos x_j); the identity is checked with these basis values replaced by independent integers',
    'trusted base: TLC evaluation of spec/Models.tla, numpy for omega^E and matrix products',
]
RULE = ('TLC enumerates the size / parameter grid of every bundled model (spec/Models.tla) and computes the exact '
        'reference (energy tensor, Hamiltonian, DFT exponent table, FPU/Kuramoto right-hand sides at integer points, '
        'Kronecker powers of the fractal seeds); the replay builds the model with the library and compares, or '
        'checks the structural property (generator / unitary) on the matricised operator or in TT form')

TOL = 1e-10


def dense_of(t):
    return contract(t.cores)


def generator_problems(op, name):
    out = []
    pm = metadata_problem(op)
    if pm:
        return [('%s:metadata' % name, pm)]
    N = int(np.prod(op.row_dims))
    if list(op.row_dims) != list(op.col_dims):
        return [('%s:dims' % name, 'not square')]
    if N <= 4096:
        G = dense_of(op).reshape(N, N)
        scale = max(1e-300, float(np.max(np.abs(G))))
        cs = float(np.max(np.abs(G.sum(axis=0))))
        if cs > 1e-11 * scale:
            out.append(('%s:colsum' % name, 'largest column sum %.3e (scale %.3e)' % (cs, scale)))
        off = G - np.diag(np.diag(G))
        if float(np.min(off.real)) < -1e-9 * scale or float(np.max(np.abs(G.imag))) > 1e-9 * scale:
            out.append(('%s:offdiag' % name, 'negative off-diagonal entry %.3e' % float(np.min(off.real))))
    else:
        # ones^T G in TT form: sum every core over its row index, then contract to a vector over the column indices
        cores = [c.sum(axis=1, keepdims=True) for c in op.cores]
        # norm of the resulting row vector, by sequential contraction (no dense operator)
        v = cores[0][0, 0, :, :]                      # n_0 x r_1
        scale = max(float(np.max(np.abs(c))) for c in op.cores)
        nrm = None
        env = np.einsum('ia,ib->ab', v.conj(), v)
        norm_scale = 1.0
        for c in cores[1:]:
            m = c[:, 0, :, :]                        # r x n x r'
            env = np.einsum('ab,ajc,bjd->cd', env, m.conj(), m)
        colsum_norm = float(np.sqrt(abs(env[0, 0])))
        # compare with the Frobenius norm of the operator itself (same contraction without the row sums)
        m0 = op.cores[0][0]
        env2 = np.einsum('ija,ijb->ab', m0.conj(), m0)
        for c in op.cores[1:]:
            env2 = np.einsum('ab,aijc,bijd->cd', env2, c.conj(), c)
        fro = float(np.sqrt(abs(env2[0, 0])))
        if colsum_norm > 1e-9 * fro:
            out.append(('%s:colsum' % name, 'norm of the column sums %.3e (operator norm %.3e), TT form' % (colsum_norm, fro)))
    return out


def unitary_problems(op, name):
    import scikit_tt.tensor_train as tt
    pm = metadata_problem(op)
    if pm:
        return [('%s:metadata' % name, pm)]
    N = int(np.prod(op.row_dims))
    if N <= 1024:
        G = dense_of(op).reshape(N, -1)
        if G.shape[0] != G.shape[1] or np.max(np.abs(G.conj().T @ G - np.eye(N))) > 1e-9:
            return [('%s:unitary' % name, 'G^H G differs from the identity')]
        return []
    d = (op.transpose(conjugate=True) @ op) - tt.eye(list(op.row_dims))
    n = d.norm()
    if n > 1e-8 * np.sqrt(N):
        return [('%s:unitary' % name, '|G^H G - I| = %.3e (TT form)' % n)]
    return []


def replay_once(case):
    import scikit_tt.models as mdl
    cfg, exp = case['cfg'], case['expect']
    m = cfg['model']
    try:
        if m == 'ising':
            t = mdl.ising(cfg['d'], cfg['J'], cfg['h'])
            # parameters as Python ints (above), floats and numpy scalars
            return cmp_dense(t, exp['dense'], m) or cmp_dense(mdl.ising(cfg['d'], float(cfg['J']), float(cfg['h'])), exp['dense'], m) \
                or cmp_dense(mdl.ising(cfg['d'], np.float64(cfg['J']), np.int64(cfg['h'])), exp['dense'], m)
        if m == 'exciton':
            t = mdl.exciton_chain(cfg['n'], cfg['alpha'], cfg['beta'])
            return cmp_dense(t, exp['dense'], m) or cmp_dense(mdl.exciton_chain(cfg['n'], float(cfg['alpha']), float(cfg['beta'])), exp['dense'], m)
        if m in ('qft', 'iqft'):
            n, N = cfg['n'], exp['N']
            G = (mdl.qft if m == 'qft' else mdl.iqft)(n)
            P = np.eye(N, dtype=complex)
            for g in G:
                P = dense_of(g).reshape(N, N) @ P
            E = np.array(exp['exp'], dtype=float)
            F = np.exp(2j * np.pi * E / N) / np.sqrt(N)
            if np.max(np.abs(P - F)) > 1e-10:
                return [('%s:product' % m, 'ordered product of the gate groups differs from the bit-reversed DFT%s (n=%d)' % (
                    ' conjugate' if m == 'iqft' else '', n))]
            return []
        if m in ('qft_groups', 'iqft_groups'):
            G = (mdl.qft if m == 'qft_groups' else mdl.iqft)(cfg['n'])
            out = []
            for k, g in enumerate(G):
                out += unitary_problems(g, '%s' % m)
            return out
        if m == 'fpu':
            d = cfg['d']
            xi = mdl.fpu_coefficients(d)
            x = np.array(cfg['x'], dtype=float)
            got = contract_with(xi, [np.array([1, v, v ** 2, v ** 3]) for v in x])
            want = np.array(exp['rhs10'], dtype=float) / 10
            if got.shape != want.shape or np.max(np.abs(got - want)) > 1e-9 * max(1.0, np.max(np.abs(want))):
                return [('fpu:rhs', 'contracted coefficient tensor %r differs from the FPU right-hand side %r at x=%r' % (got, want, x))]
            return []
        if m == 'kuramoto':
            d = cfg['d']
            # natural frequencies as a float array, for odd d as an integer array (the values are integers)
            w = np.array(cfg['w'], dtype=float if d % 2 == 0 else np.int64)
            xi = mdl.kuramoto_coefficients(d, w)
            s = np.array([1] + list(cfg['s']), dtype=float)
            c = np.array([1] + list(cfg['c']), dtype=float)
            got = contract_with(xi, [s, c])
            want = np.array(exp['rhs5d'], dtype=float) / (5 * d)
            if got.shape != want.shape or np.max(np.abs(got - want)) > 1e-9 * max(1.0, np.max(np.abs(want))):
                return [('kuramoto:rhs', 'contracted coefficient tensor %r differs from the Kuramoto right-hand side %r (d=%d)' % (got, want, d))]
            return []
        if m in ('cantor', 'multisponge', 'vicsek'):
            f = {'cantor': mdl.cantor_dust, 'multisponge': mdl.multisponge, 'vicsek': mdl.vicsek_fractal}[m](cfg['dim'], cfg['level'])
            want = carray(exp['dense']['v']).real.reshape(exp['dense']['rd'])
            f = np.asarray(f)
            if list(f.shape) != list(want.shape) or np.max(np.abs(f - want)) > 0:
                return [('%s:value' % m, 'fractal differs from the Kronecker power of the seed (dim=%d level=%d)' % (cfg['dim'], cfg['level']))]
            return []
        if m == 'rgb':
            mats = [np.array(x, dtype=float) for x in exp['mats']]
            for a_ in mats:
                a_.setflags(write=False)          # the caller's matrices are read-only
            f = np.asarray(mdl.rgb_fractal(mats[0], mats[1], mats[2], cfg['level']))
            want = carray(exp['dense']['v']).real.reshape(exp['dense']['rd'])
            if list(f.shape) != list(want.shape) or np.max(np.abs(f - want)) > 1e-12:
                return [('rgb:value', 'RGB fractal differs from the Kronecker powers of the colour matrices')]
            # colour matrices of different number types: integer red, float green (x 1/2) and blue (x 1/4); the channel of a
            # scaled matrix is the Kronecker power scaled by the level-th power of the factor (last axis = colour channel)
            lv = cfg['level']
            mixes = [((np.int64, 1.0), (float, 0.5), (float, 0.25)), ((float, 0.5), (np.int64, 1.0), (float, 1.0)),
                     ((np.int64, 1.0), (np.int64, 1.0), (np.int64, 1.0))]
            for mix in mixes:
                ms = [(np.array(x, dtype=float) * fac).astype(dt) for x, (dt, fac) in zip(exp['mats'], mix)]
                g = np.asarray(mdl.rgb_fractal(ms[0], ms[1], ms[2], lv), dtype=float)
                w2 = want * np.array([fac ** lv for _, fac in mix])
                if list(g.shape) != list(w2.shape) or np.max(np.abs(g - w2)) > 1e-12:
                    return [('rgb:value:mixed-dtype', 'RGB fractal of colour matrices with dtypes %r differs from the Kronecker powers' % (
                        [np.dtype(dt).name for dt, _ in mix],))]
            return []
        if m == 'co_generator':
            return slim_history(lambda: mdl.co_oxidation(cfg['order'], 10.0 ** cfg['kexp'], cyclic=cfg['cyclic']), 'co') or \
                generator_problems(mdl.co_oxidation(cfg['order'], 10.0 ** cfg['kexp'], cyclic=cfg['cyclic']), 'co')
        if m == 'cascade':
            return generator_problems(mdl.signaling_cascade(cfg['d']), 'cascade')
        if m == 'toll':
            return slim_history(lambda: mdl.toll_station(cfg['lanes'], cfg['cars']), 'toll') or \
                generator_problems(mdl.toll_station(cfg['lanes'], cfg['cars']), 'toll')
        if m == 'twostep':
            k = cfg['k']
            return generator_problems(mdl.two_step_destruction(float(k[0]), float(k[1]), float(k[2]), cfg['m']), 'twostep')
        if m == 'qfa':
            return unitary_problems(mdl.qfa(), 'qfa')
        if m == 'qfan':
            return unitary_problems(mdl.qfan(cfg['k']), 'qfan')
        if m == 'shor':
            return unitary_problems(mdl.shor(cfg['a']), 'shor')
    except Exception as e:
        return [('%s:exception:%s' % (m, type(e).__name__), '%s raised %r for %r' % (m, e, cfg))]
    raise KeyError(m)


class _Captured(Exception):
    pass


def replay(case):
    """the model is built and checked, every tensor train a builder returned is then orthonormalised in place (a caller is
    free to do that with what it was given), and the model is built and checked again: a builder must not hand out
    arrays it keeps using"""
    import types
    from unittest import mock
    import scikit_tt.models as mdl
    from scikit_tt.tensor_train import TT
    made = []

    def recording(f):
        def g(*a, **k):
            r = f(*a, **k)
            for t in (r if isinstance(r, (list, tuple)) else [r]):
                if isinstance(t, TT):
                    made.append(t)
            return r
        return g
    names = [n for n, f in vars(mdl).items() if isinstance(f, types.FunctionType) and not n.startswith('_') and f.__module__ == mdl.__name__]
    with mock.patch.multiple(mdl, **{n: recording(getattr(mdl, n)) for n in names}):
        out = replay_once(case)
    if out or not made:
        return out
    try:
        for t in made:
            if not metadata_problem(t) and t.ranks[0] == 1 and t.ranks[-1] == 1:
                t.ortho(threshold=1e-12)
    except Exception:
        return out
    return [('second-use:' + sig, 'after the trains returned by the first build were orthonormalised in place, a second build: ' + msg)
            for sig, msg in replay_once(case)]


def slim_history(build, name):
    """The chemical / queueing models are assembled by scikit_tt.slim.  History check: the reaction lists the model hands
    to the assembler are captured (without running it), the assembler is called directly with these lists and a coarse
    threshold (as a user exploring low-rank approximations would), and only then is the model built: it must still be a
    generator (no state of the assembler may leak into later calls)."""
    import scikit_tt.slim as slim
    from unittest import mock
    captured = []

    def stub(fname):
        def f(*a, **k):
            captured.append((fname, a, dict(k)))
            raise _Captured()
        return mock.patch.object(slim, fname, side_effect=f)
    try:
        with stub('slim_mme'), stub('slim_mme_hom'):
            build()
    except _Captured:
        pass
    except Exception:
        return []
    for fname, a, k in captured[:1]:
        try:
            getattr(slim, fname)(*a, **dict(k, threshold=0.3))
        except Exception:
            pass
    return [(sig.replace(':', ':after-coarse-slim-call:', 1), msg) for sig, msg in generator_problems(build(), name)]


def contract_with(t, vecs):
    """contract the first len(vecs) modes of a vector-type train with the given vectors -> vector over the last mode"""
    M = np.ones((1, 1))
    for k, v in enumerate(vecs):
        M = M @ np.einsum('aib,i->ab', t.cores[k][:, :, 0, :], v)
    return (M @ t.cores[-1][:, :, 0, 0]).reshape(-1)


def cmp_dense(t, dense, name):
    pm = metadata_problem(t)
    if pm:
        return [('%s:metadata' % name, pm)]
    want = carray(dense['v'])
    if list(t.row_dims) != list(dense['rd']) or list(t.col_dims) != list(dense['cd']) or t.ranks[0] != 1 or t.ranks[-1] != 1:
        return [('%s:dims' % name, 'dims %r %r ranks %r, expected %r %r' % (t.row_dims, t.col_dims, t.ranks, dense['rd'], dense['cd']))]
    got = dense_of(t).reshape(-1)
    if np.max(np.abs(got - want)) > TOL * max(1.0, float(np.max(np.abs(want)))):
        return [('%s:value' % name, 'differs from the defining formula: max abs error %.3e' % np.max(np.abs(got - want)))]
    return []


def runs(tier):
    return [dict(name='models', module='Models', constants=dict(Level=1 if tier == 'quick' else 2), invariants=['RefSane'])]


def main(tier):
    return casecheck.run('C13', tier, runs(tier), 'harness.props.c13', 'replay', ASSUME, RULE)
