"""C04 - rank truncation is bounded in rank and in error."""
from .. import poolcheck

ASSUME = [
    'islands (spec/Islands.tla): odeco tensors with integer singular values; with distinct sigma the truncated tensor is predicted exactly, with ties only ranks and error',
    'general integer tensors: the error bounds use numpy singular values of the exact unfoldings (numeric evaluator in the trusted base)',
    'the relative-threshold error bound is claimed for TT(full array) only (as in the property); ortho_left/ortho_right with a cap on a non-canonical train are held to the rank cap only',
    'thresholds are rationals away from ties of the planted spectrum',
    'MatSvd: utils.truncated_svd (the helper behind the HOSVD-type routines) on every unfolding of the islands, relative and absolute thresholds, rank caps as int / numpy.int64 / inf, C- and Fortran-ordered matrices; the caller\'s matrix is not required to survive (overwrite_a is part of the helper)',
]
RULE = ('TLC enumerates the island catalogue x gauging x every per-bond cap list (ortho(max_rank)) and every '
        '(max_rank, threshold) of TT(array), plus all small general shapes x caps; expected truncated tensors, ranks and '
        'squared errors are computed exactly by TLC; the replay performs the real truncation and compares')


def runs(tier):
    q = tier == 'quick'
    base = dict(MaxD=3, MaxDB=1, DimsR={1, 2}, DimsC={1, 2}, RanksS={1, 2, 3}, Seeds={1}, MaxDepth=1, EmitAll=False,
                Vias={'matmul'}, QL=1, OWs={False}, Lean=False, IslLevel=1 if q else 2)
    out = []
    out.append(dict(name='isl', nshards=8, constants=dict(base, Scenarios={'odeco'}, Ops={'IslOrthoTrunc', 'FromArray', 'MatSvd'},
                                                          KindPairs={('real', 'real')})))
    out.append(dict(name='gen', constants=dict(base, MaxD=3 if q else 4, DimsR={2, 3}, DimsC={1}, RanksS={1, 2, 3} if q else {2, 3},
                                               Scenarios={'single'}, Ops={'FromArray', 'OrthoTrunc'},
                                               KindPairs={('real', 'real'), ('complex', 'complex'), ('def', 'def')})))
    out.append(dict(name='genop', constants=dict(base, MaxD=2 if q else 3, DimsR={2}, DimsC={2}, RanksS={2, 3},
                                                 Scenarios={'single'}, Ops={'FromArray', 'OrthoTrunc'},
                                                 KindPairs={('real', 'real'), ('complex', 'complex')})))
    # stale-state histories: a sweep, then an overwriting call that destroys the gauge, then a truncating ortho
    OWOPS = {'RankTranspose', 'Transpose', 'Conj'}
    out.append(dict(name='stale3', constants=dict(base, MaxD=3, DimsR={2, 3}, DimsC={1}, RanksS={3}, Scenarios={'single'}, MaxDepth=3,
                                                  OWs={True}, Lean=True,
                                                  OpsAt=[{'OrthoLeft', 'OrthoRight', 'Ortho'}, OWOPS, {'OrthoTrunc'}], KindPairs={('real', 'real')})))
    # aliasing histories: a product with a scalar (t * s and s * t), then truncating sweeps on the product and on the factor -
    # a truncation of one of them must see its own cores only (rank-1 bonds are where LAPACK really works in place)
    out.append(dict(name='alias3', constants=dict(base, MaxD=3, DimsR={2, 3}, DimsC={1}, RanksS={1, 3}, Scenarios={'single'}, MaxDepth=3,
                                                  OpsAt=[{'SMul'}, {'OrthoTrunc'}, {'OrthoTrunc'}], Lean=True, KindPairs={('real', 'real')})))
    return out


def main(tier):
    return poolcheck.run('C04', tier, runs(tier), ASSUME, RULE)
