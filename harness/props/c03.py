"""C03 - orthonormalisation preserves the tensor and yields orthonormal cores."""
from .. import poolcheck

ASSUME = [
    'integer / Gaussian-integer cores; value must be preserved to 1e-9 relative; isometry defect of processed cores <= 1e-10',
    'threshold 0 and unbounded rank (truncating variants belong to C04)',
    'trusted base: TLC evaluation of spec/TTPool.tla (GaugeLeft/GaugeRight flag and rank-bound bookkeeping), harness/pool.py',
]
RULE = ('TLC enumerates all shapes (operators and vectors, size-1 modes, rank-1 bonds, over-parameterised ranks) x fills '
        '(real, complex, rank-deficient, zero cores) and every admissible (start,end) of ortho_left/ortho_right plus '
        'ortho, also as two-step histories; the spec predicts which cores must be isometries afterwards, the rank '
        'bounds, the untouched cores and the unchanged dense value; the replay checks all of them on the real objects')

OPS = {'OrthoLeft', 'OrthoRight', 'Ortho'}


def runs(tier):
    q = tier == 'quick'
    base = dict(MaxD=3 if q else 4, MaxDB=1, DimsR={1, 2}, DimsC={1, 2}, RanksS={1, 2}, Seeds={1}, MaxDepth=1,
                EmitAll=False, Vias={'matmul'}, QL=1, OWs={False}, Lean=False, IslLevel=0)
    out = []
    out.append(dict(name='g1', constants=dict(base, Scenarios={'single'}, Ops=OPS,
                                              KindPairs={('real', 'real'), ('complex', 'complex')})))
    out.append(dict(name='gdef', constants=dict(base, MaxD=3, Scenarios={'single'}, Ops=OPS, RanksS={1, 2, 3} if not q else {2, 3},
                                                KindPairs={('def', 'def'), ('cdef', 'cdef')})))
    out.append(dict(name='gzero', constants=dict(base, MaxD=3, Scenarios={'single'}, Ops=OPS,
                                                 KindPairs={('zero', 'zero'), ('zmid', 'zmid'), ('zfirst', 'zfirst')})))
    # two sweeps in a row; mixed dtypes inside the train (first core real, the others complex)
    out.append(dict(name='g2', constants=dict(base, MaxD=3, RanksS={2} if q else {1, 2}, Scenarios={'single'}, Ops=OPS, MaxDepth=2,
                                              KindPairs={('mixed1', 'mixed1')} if q else {('complex', 'complex'), ('mixed1', 'mixed1')})))
    # sweeps on objects whose cores are views with unusual memory layouts (results of rank_transpose / transpose)
    out.append(dict(name='gview', constants=dict(base, MaxD=3, RanksS={2, 3}, Scenarios={'single'}, MaxDepth=2, Lean=True,
                                                 OpsAt=[{'RankTranspose', 'Transpose'}, OPS], KindPairs={('real', 'real')})))
    # trains the caller built from one array object at several positions (fill "rep"): the library's copy owns its arrays, a
    # sweep on the copy touches neither the original nor itself twice
    out.append(dict(name='repcopy', constants=dict(base, MaxD=4, DimsR={2, 3}, DimsC={1}, RanksS={1, 2}, Scenarios={'single'}, MaxDepth=2, Lean=True,
                                                   OpsAt=[{'Copy'}, OPS], KindPairs={('rep', 'rep')})))
    # stale-state histories: a sweep, an overwriting call that destroys the gauge, the same sweep again
    out.append(dict(name='stale3', constants=dict(base, MaxD=3, DimsR={2}, DimsC={1, 2}, RanksS={2}, Scenarios={'single'}, MaxDepth=3,
                                                  OWs={True}, Lean=True,
                                                  OpsAt=[OPS, {'RankTranspose', 'Transpose', 'Conj'}, OPS], KindPairs={('real', 'real')})))
    # beyond toy sizes: orders 4 and 5, mode size 4, rank 4 (one shape per order)
    out.append(dict(name='gbig', nshards=4, constants=dict(base, MaxD=5, DimsR={4}, DimsC={1}, RanksS={4}, Scenarios={'single'}, Ops=OPS,
                                                           Lean=True, KindPairs={('real', 'real'), ('complex', 'complex')})))
    return out


def main(tier):
    # every history is replayed with C-ordered and with Fortran-ordered input cores (same values)
    return poolcheck.run('C03', tier, runs(tier), ASSUME, RULE, layouts=('C', 'F'))
