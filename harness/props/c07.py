"""C07 - ALS/MALS linear solvers: energy descent, fixed point, exactness at full rank."""
import numpy as np

from .. import casecheck
from ..pool import contract, metadata_problem, core_arrays, value_snapshot, value_changed

ASSUME = [
    'islands of spec/LinSolve.tla: A = G^H G + 2 I (Hermitian positive definite by construction, integer TT cores), planted solution and guesses with full-rank interface matrices (a train with rank-deficient interfaces makes the projected systems singular, which is outside "initial guesses of any rank")',
    'energies E(x) = (x-xs)^H A (x-xs) are evaluated numerically from the exact dense A and xs (numeric evaluator); comparison E_{k+1} <= E_k (1+1e-9) + 1e-16 E_0 + 1e-24 (1 + xs^H A xs); exactness tolerance 1e-8',
    'MALS descent is claimed without effective truncation (threshold 0, unbounded rank); with a finite max_rank only dims and the rank cap are claimed',
    'trusted base: TLC (exact core algebra AddCores/MatMulCores, model-level check b = A xs and A Hermitian on small instances), numpy for the energy',
]
RULE = ('TLC enumerates mode sizes, operator ranks, real/complex, every admissible rank profile of the planted solution and '
        'of the guess (exact / maximal / lower ranks) and builds the exact TT cores of A, xs, b, x0; the replay runs '
        'als and mals with both micro-solvers and repeats 0..3 and checks fixed point, one-sweep exactness at maximal '
        'ranks, monotone energy, dims, rank bounds and that A, b, x0 are unchanged')


def dense_vec(t):
    return contract(t.cores).reshape(-1)


def replay(case):
    import scikit_tt.solvers.sle as sle
    from scikit_tt.tensor_train import TT
    cfg, isl = case['cfg'], case['isl']
    d = len(cfg['dims'])
    A = TT(core_arrays(isl['A']))
    xs = TT(core_arrays(isl['xs']))
    b = TT(core_arrays(isl['b']))
    x0 = TT(core_arrays(isl['x0']))
    N = int(np.prod(cfg['dims']))
    Ad = contract(A.cores).reshape(N, N)
    xsd = dense_vec(xs)
    scale = float(np.max(np.abs(xsd)))
    out = []

    def energy(t):
        e = dense_vec(t) - xsd
        return float(np.real(e.conj() @ Ad @ e))

    Escale = float(np.real(xsd.conj() @ Ad @ xsd)) + 1.0      # rounding floor: a guess that happens to be exact has E = 0
    snaps = [value_snapshot([t]) for t in (A, b, x0)]
    kind = (('mixed' if cfg['opreal'] else 'cplx') if cfg['cplx'] else 'real')
    for name in ('als', 'mals'):
        if name == 'mals' and d < 2:
            continue
        for micro in ('solve', 'lu'):
            tag = '%s:%s' % (name, micro)

            def call(rep, **kw):
                f = sle.als if name == 'als' else sle.mals
                if name == 'mals':
                    kw.setdefault('threshold', 0)
                return f(A, x0, b, repeats=rep, solver=micro, **kw)
            try:
                if cfg['guess'] in ('exact', 'full'):
                    r = call(1)
                    pm = metadata_problem(r)
                    if pm:
                        out.append(('%s:metadata' % tag, pm))
                        continue
                    if list(r.row_dims) != list(b.row_dims) or list(r.col_dims) != list(b.col_dims):
                        out.append(('%s:dims' % tag, 'result dims %r, rhs dims %r' % (r.row_dims, b.row_dims)))
                        continue
                    err = float(np.max(np.abs(dense_vec(r) - xsd)))
                    if not err <= 1e-8 * scale:
                        what = 'exact solution given as guess is not returned' if cfg['guess'] == 'exact' else \
                            'guess of maximal ranks: one sweep does not return the exact solution'
                        out.append(('%s:%s:%s' % (tag, cfg['guess'], kind), '%s (max abs error %.3e, dims %r, ranks x* %r)' % (
                            what, err, cfg['dims'], cfg['rx'])))
                    if name == 'als' and any(a > g for a, g in zip(r.ranks, x0.ranks)):
                        out.append(('%s:rank' % tag, 'ALS raised a rank: %r > %r' % (r.ranks, x0.ranks)))
                    # the same system with a right-hand side of tiny (2^-44) and of huge (2^44) magnitude: the solution scales
                    # with it, relative cut-offs (default threshold 1e-12 of MALS) must not notice
                    for e2 in (-44, 44):
                        bs = (2.0 ** e2) * b
                        kw2 = {} if name == 'als' else dict(threshold=1e-12)
                        rs = (sle.als if name == 'als' else sle.mals)(A, x0, bs, repeats=1, solver=micro, **kw2)
                        errs = float(np.max(np.abs(dense_vec(rs) * 2.0 ** (-e2) - xsd))) if not metadata_problem(rs) else np.inf
                        if not errs <= 1e-7 * scale:
                            out.append(('%s:%s:scaled:%s' % (tag, cfg['guess'], kind), 'right-hand side scaled by 2^%d: the result is not the '
                                        'scaled exact solution (relative error %.3e, ranks %r)' % (e2, errs / scale, getattr(rs, 'ranks', None))))
                            break
                    # the same guess with its scale spread unevenly over the cores (core 1 x 2^50, last core x 2^-50: exact in floating
                    # point, the same tensor): the solver starts from the tensor it was given, whatever the magnitude of single cores
                    if d >= 3:
                        xg = x0.copy()
                        xg.cores[1] = xg.cores[1] * 2.0 ** 50
                        xg.cores[-1] = xg.cores[-1] * 2.0 ** -50
                        f_ = sle.als if name == 'als' else sle.mals
                        kw3 = {} if name == 'als' else dict(threshold=0, max_rank=max(x0.ranks))
                        rg_ = f_(A, xg, b, repeats=1, solver=micro, **kw3)
                        errg = float(np.max(np.abs(dense_vec(rg_) - xsd))) if not metadata_problem(rg_) else np.inf
                        if not errg <= 1e-7 * scale:
                            out.append(('%s:%s:uneven-guess:%s' % (tag, cfg['guess'], kind), 'guess with unevenly scaled cores (x 2^50, x 2^-50; the '
                                        'same tensor): the result is not x* (max abs error %.3e, dims %r)' % (errg, cfg['dims'])))
                    # second use of one operator object: solve, then the caller re-scales the operator in place (first core x 3:
                    # the operator 3A) and solves 3A x = 3b with the same object - the solution is the same x*
                    A2 = A.copy()
                    f_ = sle.als if name == 'als' else sle.mals
                    kw3 = {} if name == 'als' else dict(threshold=0)
                    f_(A2, x0, b, repeats=1, solver=micro, **kw3)
                    A2.cores[0] = 3.0 * A2.cores[0]
                    r2 = f_(A2, x0, 3.0 * b, repeats=1, solver=micro, **kw3)
                    err2 = float(np.max(np.abs(dense_vec(r2) - xsd))) if not metadata_problem(r2) else np.inf
                    if not err2 <= 1e-8 * scale:
                        out.append(('%s:%s:second-use:%s' % (tag, cfg['guess'], kind), 'operator object re-scaled in place (first core x 3) between '
                                    'two calls, right-hand side 3b: the result is not x* (max abs error %.3e, dims %r)' % (err2, cfg['dims'])))
                else:
                    E = []
                    for rep in range(0, 4):
                        r = call(rep)
                        pm = metadata_problem(r)
                        if pm:
                            out.append(('%s:metadata' % tag, pm))
                            break
                        if list(r.row_dims) != list(b.row_dims):
                            out.append(('%s:dims' % tag, 'result dims %r' % (r.row_dims,)))
                            break
                        if name == 'als' and any(a > g for a, g in zip(r.ranks, x0.ranks)):
                            out.append(('%s:rank' % tag, 'ALS raised a rank: %r > %r' % (r.ranks, x0.ranks)))
                            break
                        E.append(energy(r))
                    else:
                        for k in range(len(E) - 1):
                            if E[k + 1] > E[k] * (1 + 1e-9) + 1e-16 * E[0] + 1e-24 * Escale:
                                out.append(('%s:descent:%s' % (tag, kind), 'energy error increases from repeats=%d to %d: %r (dims %r)' % (
                                    k, k + 1, E, cfg['dims'])))
                                break
                    if name == 'mals':
                        cap = max(cfg['r0'])
                        for thr in (1e-12, 0, 1e-6):
                            r = sle.mals(A, x0, b, repeats=2, solver=micro, threshold=thr, max_rank=cap)
                            if metadata_problem(r) or max(r.ranks) > cap:
                                out.append(('%s:maxrank' % tag, 'MALS exceeded max_rank=%d with threshold=%g: %r' % (cap, thr, r.ranks)))
                                break
            except Exception as e:
                out.append(('%s:exception:%s' % (tag, type(e).__name__), '%r (cfg dims %r rx %r r0 %r guess %s)' % (
                    e, cfg['dims'], cfg['rx'], cfg['r0'], cfg['guess'])))
    for t, s, nm in zip((A, b, x0), snaps, ('operator', 'right-hand side', 'initial guess')):
        why = value_changed(s)
        if why:
            out.append(('operand_changed', 'the %s was modified by the solver (%s)' % (nm, why)))
    return out


def runs(tier):
    return [dict(name='lin', module='LinSolve', constants=dict(Level=1 if tier == 'quick' else 2), invariants=['IslandOK'])]


def main(tier):
    return casecheck.run('C07', tier, runs(tier), 'harness.props.c07', 'replay', ASSUME, RULE)
