"""C15 - transformed data tensors equal the tensor of basis-function products."""
import numpy as np

from .. import casecheck
from ..evaluator import ev_expr, rat
from ..pool import contract, metadata_problem, caller_array

ASSUME = [
    'integer data matrices; integer-polynomial / indicator bases are evaluated exactly by TLC, mixtures with sin/cos/Gauss by the generic evaluator from the leaf expressions the specification emits',
    'HOCUR is called with ranks = number of snapshots (>= every true rank) and a multiplier that makes the initial column candidates cover all snapshots; comparison tolerance 1e-8 relative',
    'coordinate-/function-major take scalar callables (as in the repository tests); they are built from the specification expressions',
    'trusted base: TLC (spec/Transform.tla, CalcBase.tla), harness/evaluator.py',
]
RULE = ('TLC enumerates state dimension, snapshot count (incl. 1), number of modes, mode catalogues (incl. single-function '
        'modes and mixtures), layouts (general / coordinate-major / function-major with and without add_one / Gram) and '
        'emits the leaves and the exact tensor; the replay builds the library objects, compares the full train, every '
        'single core, the Gram matrix and the HOCUR result')


def make_fn(f):
    import scikit_tt.data_driven.transform as tf
    fam, idx = f['fam'], f['idx']
    if fam == 'constant':
        return tf.ConstantFunction(idx)
    if fam == 'identity':
        return tf.Identity(idx)
    if fam == 'monomial':
        return tf.Monomial(idx, f['exp'], prefactor=rat(f['pre']))
    if fam == 'indicator':
        return tf.IndicatorFunction(idx, rat(f['lo']), rat(f['hi']))
    if fam == 'sin':
        return tf.Sin(idx, rat(f['alpha']))
    if fam == 'cos':
        return tf.Cos(idx, rat(f['alpha']))
    if fam == 'gauss':
        return tf.GaussFunction(idx, rat(f['mean']), rat(f['var']))
    raise KeyError(fam)


def leaf_values(L):
    return [np.array([[ev_expr(l['e'], [float(v) for v in l['pt']]) for l in row] for row in mode]) for mode in L]


def psi_from_leaves(vals):
    """Psi[i_1..i_q, j] = prod_k vals[k][i_k, j]"""
    m = vals[0].shape[1]
    out = np.ones((1, m))
    for v in vals:
        out = np.einsum('aj,ij->aij', out, v).reshape(-1, m)
    return out.reshape([v.shape[0] for v in vals] + [m])


def candidates_deficient(psi, m, multiplier):
    """Classifier for known finding F11: do the initial candidate columns of the cross approximation (the first
    multiplier*rank column multi-indices, as documented for __hocur_first_col_inds) fail to span some unfolding?"""
    n = list(psi.shape)
    ranks = [1] + [min(m, n[-1])] * (len(n) - 1) + [1]
    col_inds = [None]
    col_inds.insert(0, [[j] for j in range(min(multiplier * ranks[-2], n[-1]))])
    for i in range(len(n) - 3, -1, -1):
        flat = np.arange(min(multiplier * ranks[i + 1], n[i + 1] * ranks[i + 2]))
        mi = np.array(np.unravel_index(flat, (n[i + 1], ranks[i + 2])))
        col_inds.insert(0, [[int(mi[0, j])] + col_inds[0][int(mi[1, j])] for j in range(mi.shape[1])])
    for i in range(len(n) - 1):
        rows = int(np.prod(n[:i + 1]))
        unf = psi.reshape(rows, -1)
        cols = [int(np.ravel_multi_index(c, n[i + 1:])) for c in col_inds[i]]
        if np.linalg.matrix_rank(unf[:, cols]) < np.linalg.matrix_rank(unf):
            return True
    return False


def cmp_tt(t, want, name, tol=1e-10):
    pm = metadata_problem(t)
    if pm:
        return [('%s:metadata' % name, pm)]
    if list(t.row_dims) != list(want.shape) or any(c != 1 for c in t.col_dims) or t.ranks[0] != 1 or t.ranks[-1] != 1:
        return [('%s:dims' % name, 'row dims %r, expected %r' % (t.row_dims, want.shape))]
    got = contract(t.cores).reshape(want.shape)
    err = float(np.max(np.abs(got - want)))
    if not err <= tol * max(1.0, float(np.max(np.abs(want)))):
        return [('%s:value' % name, 'entries differ from the products of basis functions: max abs error %.3e' % err)]
    return []


def core_equal(c, ref):
    """"exactly the corresponding core": equal up to rounding in the last digits"""
    return bool(np.max(np.abs(c - ref)) <= 1e-12 * max(1.0, float(np.max(np.abs(ref))))) if c.size else True


def replay(case):
    import scikit_tt.data_driven.transform as tf
    cfg, exp = case['cfg'], case['expect']
    lay = cfg['layout']
    x = caller_array(np.array(exp['x'], dtype=float), len(exp['x'][0]))      # read-only, Fortran-ordered for odd m
    vals = leaf_values(exp['leaves'])
    out = []
    try:
        if lay == 'gram':
            x2 = caller_array(np.array(exp['x2'], dtype=float), 1)
            vals2 = leaf_values(exp['leaves2'])
            want = np.ones((x.shape[1], x2.shape[1]))
            for a, b in zip(vals, vals2):
                want = want * (a.T @ b)
            if exp['exact'] and np.max(np.abs(want - np.array(exp['gram'], dtype=float))) > 1e-9:
                raise RuntimeError('evaluator disagrees with TLC on the Gram matrix')
            basis = [[make_fn(f) for f in mode] for mode in cfg['basis']]
            got = tf.gram(x, x2, basis)
            if got.shape != want.shape or np.max(np.abs(got - want)) > 1e-10 * max(1.0, np.max(np.abs(want))):
                out.append(('gram:value', 'Gram matrix differs from Psi(x1)^T Psi(x2)'))
            # the same data set twice, a data set and a copy, time-lagged / reversed views of one buffer, integer dtype
            m1 = x.shape[1]
            full = np.ones((m1, m1))
            for a in vals:
                full = full * (a.T @ a)
            scen = [('same-array', x, x, full), ('copy', x, x.copy(), full), ('reversed-view', x, x[:, ::-1], full[:, ::-1]),
                    ('int-dtype', x.astype(np.int64), x2.astype(np.int64), want)]
            if m1 >= 2:
                scen.append(('lagged-views', x[:, :-1], x[:, 1:], full[:-1, 1:]))
            for name, a1, a2, w in scen:
                g = tf.gram(a1, a2, basis)
                if g.shape != w.shape or np.max(np.abs(g - w)) > 1e-10 * max(1.0, np.max(np.abs(w))):
                    out.append(('gram:value:%s' % name, 'Gram matrix of %s data sets differs from Psi(x1)^T Psi(x2)' % name))
                    break
            return out
        want = psi_from_leaves(vals)
        if exp['exact']:
            tl = np.array(exp['psi']['v'], dtype=float).reshape(exp['psi']['dims'])
            if tl.shape != want.shape or np.max(np.abs(tl - want)) > 1e-9:
                raise RuntimeError('evaluator disagrees with TLC on the exact tensor')
        if lay == 'general':
            basis = [[make_fn(f) for f in mode] for mode in cfg['basis']]
            t = tf.basis_decomposition(x, basis)
            out += cmp_tt(t, want, 'general')
            out += cmp_tt(tf.basis_decomposition(x.astype(np.int64), basis), want, 'general:int-dtype')
            if not out:
                for i in range(len(basis)):
                    c = tf.basis_decomposition(x, basis, single_core=i)
                    if not isinstance(c, np.ndarray) or c.shape != t.cores[i].shape or not core_equal(c, t.cores[i]):
                        out.append(('general:single_core', 'single_core=%d differs from core %d of the full construction' % (i, i)))
                        break
            # HOCUR with ranks >= true ranks reproduces the same tensor (not defined for the zero tensor: rank 0)
            m = x.shape[1]
            if np.max(np.abs(want)) > 0:
                basis2 = [[make_fn(f) for f in mode] for mode in cfg['basis']]
                mult = max(2, m * 4)
                try:
                    # second use: the same basis-function objects serve another data set first (the snapshots in reverse order,
                    # shifted); that call may fail (its own candidates / ranks), only what it leaves behind matters here
                    try:
                        tf.hocur(np.ascontiguousarray(x[:, ::-1]) + 0.5, basis2, ranks=m, repeats=1, multiplier=mult, progress=False)
                    except Exception:
                        pass
                    if cfg['seed'] % 2 and m > 1:
                        # the documented list form of the rank argument, re-used for two data sets: the
                        # requested ranks of the second call are what the caller wrote, whatever the first call did
                        rl = [1] + [m] * len(basis2) + [1]
                        try:
                            tf.hocur(x[:, :1], [[make_fn(f) for f in mode] for mode in cfg['basis']], ranks=rl, progress=False)
                        except Exception:
                            pass        # the one-snapshot tensor may be zero (rank 0: outside HOCUR's domain); only the
                            #             effect of this call on the caller's list matters here
                        h = tf.hocur(x, basis2, ranks=rl, repeats=1, multiplier=mult, progress=False)
                    else:
                        h = tf.hocur(x, basis2, ranks=m, repeats=1 + (cfg['seed'] % 2), multiplier=mult, progress=False)
                    res = cmp_tt(h, want, 'hocur', tol=1e-8)
                    if not res and any(r > m for r in h.ranks):
                        res = [('hocur:rank', 'ranks %r exceed the requested %d' % (h.ranks, m))]
                except Exception as e:
                    res = [('hocur:exception:%s' % type(e).__name__, 'hocur raised %r' % (e,))]
                if res and res[0][0] == 'hocur:exception:LinAlgError' and not candidates_deficient(want, m, mult):
                    # classifier of known finding F26: the requested rank is strictly above the true rank of an unfolding, the
                    # cross matrix of that bond is singular and its inversion raises
                    dims_ = list(want.shape)
                    tr = [int(np.linalg.matrix_rank(want.reshape(int(np.prod(dims_[:b_])), -1))) for b_ in range(1, len(dims_))]
                    if min(tr) < m:
                        res = [('hocur:rank-above-true-rank', 'HOCUR with ranks=%d raises LinAlgError: the true ranks are %r, the cross matrix of a bond '
                                'with smaller true rank is singular; data %r' % (m, tr, exp['x']))]
                if res and res[0][0] != 'hocur:rank' and candidates_deficient(want, m, mult):
                    res = [('hocur:candidates-deficient', 'HOCUR with ranks=%d (>= true ranks) does not reproduce the tensor: the initial '
                            'candidate columns do not span an unfolding; data %r; %s' % (m, exp['x'], res[0][1]))]
                out += res
        elif lay == 'cm':
            phi = [(lambda e: (lambda s: ev_expr(e, [s])))(exp['leaves'][0][i][0]['e']) for i in range(len(cfg['phi']))]
            t = tf.coordinate_major(x, phi)
            out += cmp_tt(t, want, 'cm')
            out += cmp_tt(tf.coordinate_major(x.astype(np.int64), phi), want, 'cm:int-dtype')      # lattice data stored as integers
            if not out:
                for i in range(x.shape[0]):
                    c = tf.coordinate_major(x, phi, single_core=i)
                    if c.shape != t.cores[i].shape or not core_equal(c, t.cores[i]):
                        out.append(('cm:single_core', 'single_core=%d differs from core %d' % (i, i)))
                        break
        elif lay == 'fm':
            off = 1 if cfg['addone'] else 0
            phi = [(lambda e: (lambda s: ev_expr(e, [s])))(exp['leaves'][k][off][0]['e']) for k in range(len(cfg['phi']))]
            t = tf.function_major(x, phi, add_one=cfg['addone'])
            out += cmp_tt(t, want, 'fm')
            out += cmp_tt(tf.function_major(x.astype(np.int64), phi, add_one=cfg['addone']), want, 'fm:int-dtype')
            # plain Python functions whose return type depends on the argument (ReLU-like: the int 0 on one side, a float on
            # the other; a hat that is the int 0 outside its support): reference by brute force from the definition
            relu, hat = (lambda v: max(v, 0)), (lambda v: 1 - abs(v) / 2 if abs(v) < 2 else 0)
            for fl in ([relu, hat], [hat, relu, (lambda v: v)]):
                xs_ = x * 0.7 - 0.4                     # non-integer data on both sides of the kinks
                tpy = tf.function_major(xs_, fl, add_one=cfg['addone'])
                off_ = 1 if cfg['addone'] else 0
                vals_ = [np.array([[1.0] * xs_.shape[1]] * off_ + [[float(g(xs_[k, j])) for j in range(xs_.shape[1])] for k in range(xs_.shape[0])])
                         for g in fl]
                out += cmp_tt(tpy, psi_from_leaves(vals_), 'fm:python-functions')
                if out:
                    break
            if not out:
                for i in range(len(phi)):
                    c = tf.function_major(x, phi, add_one=cfg['addone'], single_core=i)
                    if c.shape != t.cores[i].shape or not core_equal(c, t.cores[i]):
                        out.append(('fm:single_core', 'single_core=%d differs from core %d' % (i, i)))
                        break
    except RuntimeError:
        raise
    except Exception as e:
        out.append(('%s:exception:%s' % (lay, type(e).__name__), '%r for %r' % (e, {k: v for k, v in cfg.items() if k != 'basis'})))
    return out


def runs(tier):
    return [dict(name='tf', module='Transform', constants=dict(Level=1 if tier == 'quick' else 2), invariants=['Sane'])]


def main(tier):
    return casecheck.run('C15', tier, runs(tier), 'harness.props.c15', 'replay', ASSUME, RULE)
