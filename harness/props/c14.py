"""C14 - basis functions: derivatives are the derivatives of the function."""
import numpy as np

from .. import casecheck
from ..evaluator import ev_expr, rat

ASSUME = [
    'the families are the documented formulas, transcribed into spec/Calculus.tla (a consistent change of a definition together with its derivatives needs the transcription updated)',
    'rational parameters and evaluation points; B-splines at interior non-knot points; partial2 of PeriodicGaussFunction / Bspline raises NotImplementedError and is out of scope',
    'trusted base: TLC (symbolic derivative D, structural zero test), harness/evaluator.py (generic float evaluation of expression trees), tolerance 1e-9 relative',
]
RULE = ('TLC enumerates family x parameter grid x dimension x coordinate index x evaluation point, differentiates the '
        'family expression symbolically (gradient and full Hessian, including all off-coordinate directions, which it '
        'proves structurally zero) and emits the expressions; the library objects are evaluated at the same points')


def make(cfg, with_dim):
    import scikit_tt.data_driven.transform as tf
    f, idx = cfg['fam'], cfg['idx']
    kw = {'dimension': cfg['dim']} if with_dim else {}
    if f == 'constant':
        return tf.ConstantFunction(idx, **kw)
    if f == 'identity':
        return tf.Identity(idx, **kw)
    if f == 'monomial':
        return tf.Monomial(idx, cfg['exp'], prefactor=rat(cfg['pre']), **kw)
    if f == 'legendre':
        return tf.Legendre(idx, cfg['deg'], domain=rat(cfg['dom']), **kw)
    if f == 'sin':
        return tf.Sin(idx, rat(cfg['alpha']), **kw)
    if f == 'cos':
        return tf.Cos(idx, rat(cfg['alpha']), **kw)
    if f == 'gauss':
        return tf.GaussFunction(idx, rat(cfg['mean']), rat(cfg['var']), **kw)
    if f == 'pgauss':
        return tf.PeriodicGaussFunction(idx, rat(cfg['mean']), rat(cfg['var']), **kw)
    if f == 'bspline':
        return tf.Bspline(idx, [k / cfg['kd'] for k in cfg['knots']], cfg['deg'], [float(c) for c in cfg['coef']], **kw)
    raise KeyError(f)


def close(a, b):
    return abs(a - b) <= 1e-9 * max(1.0, abs(b))


def replay(case):
    cfg, exp = case['cfg'], case['expect']
    dim = cfg['dim']
    t = np.array([rat(r) for r in cfg['pt'][:dim]], dtype=float)
    fam = cfg['fam']
    out = []
    val = ev_expr(exp['val'], t)
    grad = [ev_expr(g, t) for g in exp['grad']]
    hess = [[ev_expr(h, t) for h in row] for row in exp['hess']]
    for with_dim in (True, False):
        try:
            f = make(cfg, with_dim)
            got = float(f(t))
            if not close(got, val):
                out.append(('%s:value' % fam, 'f(t) = %r, expected %r (cfg %r)' % (got, val, _short(cfg))))
            for j in range(dim):
                p = float(f.partial(t, j))
                if not close(p, grad[j]):
                    out.append(('%s:partial' % fam, 'partial(t, %d) = %r, true derivative %r (cfg %r)' % (j, p, grad[j], _short(cfg))))
            g = np.asarray(f.gradient(t), dtype=float)
            if g.shape != (dim,) or any(not close(g[j], grad[j]) for j in range(dim)):
                out.append(('%s:gradient' % fam, 'gradient(t) = %r, expected %r (cfg %r)' % (g, grad, _short(cfg))))
            if fam not in ('pgauss', 'bspline'):
                for j in range(dim):
                    for l in range(dim):
                        p2 = float(f.partial2(t, j, l))
                        if not close(p2, hess[j][l]):
                            out.append(('%s:partial2' % fam, 'partial2(t, %d, %d) = %r, true derivative %r (cfg %r)' % (
                                j, l, p2, hess[j][l], _short(cfg))))
                H = np.asarray(f.hessian(t), dtype=float)
                if H.shape != (dim, dim) or any(not close(H[j, l], hess[j][l]) for j in range(dim) for l in range(dim)):
                    out.append(('%s:hessian' % fam, 'hessian(t) differs from the true Hessian (cfg %r)' % (_short(cfg),)))
            # evaluation points given with an integer dtype (lattice data) or as a list of Python ints
            if np.all(t == np.round(t)) and fam != 'bspline':
                for tag, ti in (('int-array', t.astype(np.int64)), ('int-list', [int(v) for v in t])):
                    gi = np.asarray(f.gradient(ti), dtype=float)
                    if gi.shape != (dim,) or any(not close(gi[j], grad[j]) for j in range(dim)):
                        out.append(('%s:gradient:%s' % (fam, tag), 'gradient at an integer-typed point = %r, expected %r (cfg %r)' % (gi, grad, _short(cfg))))
                    vi = float(f(ti))
                    if not close(vi, val):
                        out.append(('%s:value:%s' % (fam, tag), 'f at an integer-typed point = %r, expected %r (cfg %r)' % (vi, val, _short(cfg))))
                    pi = [float(f.partial(ti, j)) for j in range(dim)]
                    if any(not close(pi[j], grad[j]) for j in range(dim)):
                        out.append(('%s:partial:%s' % (fam, tag), 'partial at an integer-typed point = %r, expected %r (cfg %r)' % (pi, grad, _short(cfg))))
                    if fam not in ('pgauss', 'bspline'):
                        Hi = np.asarray(f.hessian(ti), dtype=float)
                        if Hi.shape != (dim, dim) or any(not close(Hi[j, l], hess[j][l]) for j in range(dim) for l in range(dim)):
                            out.append(('%s:hessian:%s' % (fam, tag), 'hessian at an integer-typed point differs (cfg %r)' % (_short(cfg),)))
            # the returned arrays are the derivatives at t - also after the object has been evaluated at another point
            # (a result must not be a buffer that a later call overwrites)
            g_ret = f.gradient(t)
            h_ret = f.hessian(t) if fam not in ('pgauss', 'bspline') else None
            t2 = 0.5 * t + 0.0625
            try:
                f.gradient(t2)
                if h_ret is not None:
                    f.hessian(t2)
                f.partial(t2, cfg['idx'] % dim)
                f(t2)
            except Exception:
                pass
            g2 = np.asarray(g_ret, dtype=float)
            if g2.shape != (dim,) or any(not close(g2[j], grad[j]) for j in range(dim)):
                out.append(('%s:gradient:overwritten' % fam, 'the array returned by gradient(t) changed after a call at another point: '
                            '%r, expected %r (cfg %r)' % (g2, grad, _short(cfg))))
            if h_ret is not None:
                H2 = np.asarray(h_ret, dtype=float)
                if H2.shape != (dim, dim) or any(not close(H2[j, l], hess[j][l]) for j in range(dim) for l in range(dim)):
                    out.append(('%s:hessian:overwritten' % fam, 'the array returned by hessian(t) changed after a call at another point (cfg %r)' % (_short(cfg),)))
            # one point buffer that the caller overwrites in place (x += ...): queried at another point first, refilled with t,
            # queried again - the answers must be the derivatives at the current contents
            buf = (0.5 * t + 0.0625).copy()
            try:
                f.gradient(buf)
                f.partial(buf, cfg['idx'] % dim)
                if fam not in ('pgauss', 'bspline'):
                    f.hessian(buf)
                    f.partial2(buf, cfg['idx'] % dim, cfg['idx'] % dim)
                f(buf)
            except Exception:
                pass
            buf[:] = t
            gb = np.asarray(f.gradient(buf), dtype=float)
            pb = [float(f.partial(buf, j)) for j in range(dim)]
            vb = float(f(buf))
            stale = gb.shape != (dim,) or any(not close(gb[j], grad[j]) for j in range(dim)) or \
                any(not close(pb[j], grad[j]) for j in range(dim)) or not close(vb, val)
            if not stale and fam not in ('pgauss', 'bspline'):
                Hb = np.asarray(f.hessian(buf), dtype=float)
                stale = Hb.shape != (dim, dim) or any(not close(Hb[j, l], hess[j][l]) for j in range(dim) for l in range(dim))
            if stale:
                out.append(('%s:refilled-buffer' % fam, 'value / derivatives at a point buffer that was refilled in place are not those of its '
                            'current contents (cfg %r)' % (_short(cfg),)))
            # evaluation on an array of points equals evaluation point by point
            if fam != 'bspline':
                T = np.stack([t, t + 0.125, 2 * t - 0.5], axis=1)
            else:
                T = np.stack([t, t], axis=1)
            arr = np.asarray(f(T), dtype=float)
            pw = np.array([float(f(T[:, k])) for k in range(T.shape[1])])
            if arr.shape != pw.shape or np.max(np.abs(arr - pw)) > 1e-12 * max(1.0, np.max(np.abs(pw))):
                out.append(('%s:array' % fam, 'evaluation on an array %r differs from pointwise %r' % (arr, pw)))
            # a fresh object (dimension not given) whose FIRST use is on an array of points (as gram / hocur / the data-driven
            # methods do), then differentiated at a single point (as tgEDMD does with the same basis list)
            if not with_dim:
                fr = make(cfg, False)
                arr2 = np.asarray(fr(T), dtype=float)
                gf = np.asarray(fr.gradient(t), dtype=float)
                pf = [float(fr.partial(t, j)) for j in range(dim)]
                bad = arr2.shape != pw.shape or np.max(np.abs(arr2 - pw)) > 1e-12 * max(1.0, np.max(np.abs(pw))) or \
                    gf.shape != (dim,) or any(not close(gf[j], grad[j]) for j in range(dim)) or any(not close(pf[j], grad[j]) for j in range(dim))
                if not bad and fam not in ('pgauss', 'bspline'):
                    Hf = np.asarray(fr.hessian(t), dtype=float)
                    bad = Hf.shape != (dim, dim) or any(not close(Hf[j, l], hess[j][l]) for j in range(dim) for l in range(dim))
                if bad:
                    out.append(('%s:array-first' % fam, 'object first used on an array of %d points, then differentiated at one point: gradient %r, '
                                'expected %r (cfg %r)' % (T.shape[1], gf, grad, _short(cfg))))
        except Exception as e:
            out.append(('%s:exception:%s' % (fam, type(e).__name__), '%r (cfg %r)' % (e, _short(cfg))))
        if out:
            break
    return out


def _short(cfg):
    return {k: v for k, v in cfg.items() if k not in ('text',)}


def runs(tier):
    return [dict(name='calc', module='Calculus', constants=dict(Level=1 if tier == 'quick' else 2),
                 invariants=['ZeroOffCoordinate'])]


def main(tier):
    return casecheck.run('C14', tier, runs(tier), 'harness.props.c14', 'replay', ASSUME, RULE)
