"""C17 - tensor-based DMD equals matrix DMD of the unfolded snapshots."""
import numpy as np

from .. import casecheck
from ..pool import contract, metadata_problem, core_arrays, carray, value_snapshot, value_changed

ASSUME = [
    'islands of spec/Dmd.tla: Y = A X with A = S diag(d) S^-1 (unimodular S), X of full row rank: DMD eigenvalues are the planted integers exactly; general integer trains are compared with numpy matrix DMD of the unfoldings (numeric evaluator) with the same relative cut',
    'thresholds 0 (full-rank X) and 1e-10; eigenvalue multisets compared with 1e-7 relative; ortho_l/ortho_r = False only after the corresponding sweep of a copy',
    'the repository\'s own tDMD tests cannot run (emptied data file); this check does not depend on them',
]
RULE = ('TLC enumerates spatial dimension vectors, snapshot counts, planted spectra and seeds (islands, exact integer TTs) and '
        'general integer trains of several ranks; the replay runs tdmd_exact and tdmd_standard with thresholds and '
        'orthonormalisation flags and checks eigenvalues, mode equations and that x, y keep their value')


def mat(t, N):
    return contract(t.cores).reshape(N, -1)


def dmd_reference(X, Y, thr):
    U, s, Vh = np.linalg.svd(X, full_matrices=False)
    keep = s / s[0] > max(thr, 1e-12)
    U, s, Vh = U[:, keep], s[keep], Vh[keep]
    At = U.conj().T @ Y @ Vh.conj().T @ np.diag(1 / s)
    w, W = np.linalg.eig(At)
    return w, U, s, Vh


def multiset_close(a, b, tol):
    a, b = list(a), list(b)
    if len(a) != len(b):
        return False
    for v in a:
        k = int(np.argmin([abs(v - u) for u in b]))
        if abs(v - b[k]) > tol:
            return False
        b.pop(k)
    return True


def replay(case):
    import scikit_tt.data_driven.tdmd as tdmd
    from scikit_tt.tensor_train import TT
    cfg, isl = case['cfg'], case['isl']
    dims = list(cfg['dims'])
    N = int(np.prod(dims))
    x = TT(core_arrays(isl['x']))
    y = TT(core_arrays(isl['y']))
    X, Y = mat(x, N), mat(y, N)
    out = []
    sx = np.linalg.svd(X, compute_uv=False)
    fullrank = sx[-1] > 1e-9 * sx[0] and min(X.shape) == len(sx)
    for thr in (0.0, 1e-10):
        if thr == 0.0 and not (fullrank and all(r <= min(X.shape) for r in x.ranks)):
            continue
        for flags in ('default', 'pre_l', 'pre_r', 'pre_lr', 'scaled'):
            xx = x.copy()
            kw = {}
            if flags == 'scaled':
                # the same tensor in a representation that carries its scale in the first core (x 2^44) and a small
                # factor in the snapshot core (x 2^-44): relative cuts must not notice
                if x.order < 2:
                    continue
                xx.cores[0] = xx.cores[0] * 2.0 ** 44
                xx.cores[-1] = xx.cores[-1] * 2.0 ** -44
            if flags == 'pre_l':
                xx = xx.ortho_left(end_index=x.order - 3) if x.order >= 3 else xx
                kw['ortho_l'] = False
            if flags in ('pre_r', 'pre_lr'):
                # the right part of the split is the last core: make it right-orthonormal beforehand and switch the sweep off
                if flags == 'pre_lr':
                    xx = xx.ortho_left(end_index=x.order - 3) if x.order >= 3 else xx
                    kw['ortho_l'] = False
                xx = xx.ortho_right(start_index=x.order - 1, end_index=x.order - 1)
                kw['ortho_r'] = False
            snaps = value_snapshot([xx, y])
            for name, f in (('exact', tdmd.tdmd_exact), ('standard', tdmd.tdmd_standard)):
                tag = 'tdmd_%s' % name
                try:
                    lam, modes = f(xx, y, threshold=thr, **kw)
                except Exception as e:
                    out.append(('%s:exception:%s' % (tag, type(e).__name__), '%r (dims %r m=%d)' % (e, dims, cfg['m'])))
                    continue
                lam = np.asarray(lam)
                w, U, s, Vh = dmd_reference(X, Y, thr)
                scale = max(1.0, float(np.max(np.abs(w))) if len(w) else 1.0)
                want = np.array(cfg['dg'], dtype=float) if cfg['island'] else w
                if not multiset_close(lam, want, 1e-7 * scale):
                    out.append(('%s:eigenvalues' % tag, 'eigenvalues %r differ from %s %r (dims %r m=%d thr=%g)' % (
                        np.round(lam, 6), 'the planted spectrum' if cfg['island'] else 'matrix DMD', np.round(want, 6), dims, cfg['m'], thr)))
                    continue
                pm = metadata_problem(modes)
                if pm:
                    out.append(('%s:metadata' % tag, pm))
                    continue
                Phi = contract(modes.cores).reshape(N, -1)
                if Phi.shape[1] != len(lam):
                    out.append(('%s:modes' % tag, '%d modes for %d eigenvalues' % (Phi.shape[1], len(lam))))
                    continue
                Admd = Y @ np.linalg.pinv(X, rcond=max(thr, 1e-12))
                if name == 'exact':
                    R = Admd @ Phi - Phi * lam[None, :]
                else:
                    Pu = U @ U.conj().T
                    R = Pu @ Admd @ Phi - Phi * lam[None, :]
                    if np.max(np.abs(Pu @ Phi - Phi)) > 1e-7 * max(1.0, float(np.max(np.abs(Phi)))):
                        out.append(('%s:modes' % tag, 'standard DMD modes are not in the range of the left singular vectors'))
                        continue
                # exact DMD modes Y V S^-1 w / lambda are defined for non-zero eigenvalues only (for lambda = 0 up to
                # rounding they are rounding noise divided by lambda): those columns are not compared
                sel = np.abs(lam) > 1e-6 * scale if name == 'exact' else np.ones(len(lam), dtype=bool)
                if not np.any(sel):
                    continue
                R, nz = R[:, sel], np.linalg.norm(Phi, axis=0)[sel]
                if np.min(nz) < 1e-12 or np.max(np.linalg.norm(R, axis=0) / nz) > 1e-6 * scale:
                    out.append(('%s:modes' % tag, 'modes do not satisfy the %s DMD eigen-equation (max residual %.3e)' % (
                        name, np.max(np.linalg.norm(R, axis=0) / np.maximum(nz, 1e-300)))))
            why = value_changed(snaps)
            if why:
                out.append(('operand_changed', 'tdmd modified its input trains (%s; dims %r, ranks %r)' % (why, dims, x.ranks)))
                return out
            if flags == 'default' and not out:
                # second use of the same objects: the caller re-weights the snapshots in place (time cores x diag(1, 2, 1, ..),
                # dims and ranks unchanged) and calls again - the result is the DMD of the new data
                yy = y.copy()
                D = np.array([1.0 + (j % 2) for j in range(cfg['m'])])
                xx.cores[-1] = xx.cores[-1] * D[None, :, None, None]
                yy_first = tdmd.tdmd_exact(xx, yy, threshold=thr)      # (xx new, yy old): warms any memo with the new xx
                yy.cores[-1] = yy.cores[-1] * D[None, :, None, None]
                X2, Y2 = mat(xx, N), mat(yy, N)
                w2 = dmd_reference(X2, Y2, thr)[0]
                sc2 = max(1.0, float(np.max(np.abs(w2))) if len(w2) else 1.0)
                xx.cores[-1] = xx.cores[-1] * (1.0 / D)[None, :, None, None]
                tdmd.tdmd_exact(xx, yy, threshold=thr)
                xx.cores[-1] = xx.cores[-1] * D[None, :, None, None]
                for name, f in (('exact', tdmd.tdmd_exact), ('standard', tdmd.tdmd_standard)):
                    try:
                        lam2 = np.asarray(f(xx, yy, threshold=thr)[0])
                    except Exception as e:
                        out.append(('tdmd_%s:second-use:exception:%s' % (name, type(e).__name__), repr(e)))
                        continue
                    if not multiset_close(lam2, w2, 1e-6 * sc2):
                        out.append(('tdmd_%s:second-use' % name, 'second call with the same train objects after their time cores were re-weighted in '
                                    'place: eigenvalues %r, matrix DMD of the new data %r (dims %r m=%d thr=%g)' % (
                                        np.round(lam2, 6), np.round(w2, 6), dims, cfg['m'], thr)))
    return out


def runs(tier):
    return [dict(name='dmd', module='Dmd', constants=dict(Level=1 if tier == 'quick' else 2), invariants=['IslandOK'])]


def main(tier):
    return casecheck.run('C17', tier, runs(tier), 'harness.props.c17', 'replay', ASSUME, RULE)
