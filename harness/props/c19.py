"""C19 - generator EDMD: product-rule evaluation and reduced matrix match the dense ones."""
import itertools

import numpy as np

from ..pool import caller_array

from .. import casecheck
from ..evaluator import ev_expr
from .c15 import leaf_values, psi_from_leaves, make_fn

ASSUME = [
    'L F and grad F . sigma[:, i] are differentiated symbolically by TLC from the product expression (spec/GEdmd.tla, CalcBase.tla) and evaluated by the generic evaluator; integer drift / diffusion (possibly non-square), integer points including exact zeros',
    'OU island: eigenvalues -(n1 theta1 + n2 theta2) exactly (monomial product basis up to degree 2, snapshots containing a full 3x3 grid); general configurations are compared with the dense projected generator matrix built from the transformed data matrix and its generator image (numeric evaluator; the entries of the generator image come from generator_on_product, itself verified in part (a))',
    'HOSVD threshold 1e-10 relative (Psi represented exactly); eigenvalue multisets compared with 1e-6 relative; ill-conditioned general cases (two reference computations disagree) are outside the precondition',
]
RULE = ('TLC enumerates state dimension, diffusion shape (incl. non-square), seeds, product bases and all index tuples and emits '
        'the symbolic L F / reversible expressions; OU islands with exact spectra; general data with state-dependent drift, '
        'diffusion and reweighting; the replay compares generator_on_product(_reversible) entry by entry and the tgEDMD '
        'eigenvalues (reversible or not, with and without reweighting, all return options)')


def replay(case):
    import scikit_tt.data_driven.tgedmd as tg
    cfg, exp = case['cfg'], case['expect']
    task = cfg['task']
    out = []
    try:
        if task == 'gop':
            basis = [[make_fn(f) for f in mode] for mode in cfg['basis']]
            sig = np.array(exp['sig'], dtype=float)
            b = np.array(exp['b'], dtype=float)
            x = np.array(exp['x'], dtype=float)
            for c in exp['cases']:
                s = tuple(c['s'])
                want = ev_expr(c['gen'], x)
                got = float(tg.generator_on_product(basis, s, x, b, sig))
                # the same with integer-typed arguments (the data of the specification are integers)
                goti = float(tg.generator_on_product(basis, s, x.astype(np.int64), b.astype(np.int64), sig.astype(np.int64)))
                if abs(goti - want) > 1e-9 * max(1.0, abs(want)):
                    out.append(('generator_on_product:value:int-dtype', 'L(prod f)(x) = %r for integer-typed x, b, sigma; symbolic value %r (s=%r)' % (goti, want, s)))
                    break
                if abs(got - want) > 1e-9 * max(1.0, abs(want)):
                    out.append(('generator_on_product:value', 'L(prod f)(x) = %r, symbolic value %r (s=%r, x=%r, sigma shape %r)' % (
                        got, want, s, list(x), sig.shape)))
                    break
                for col in range(sig.shape[1]):
                    want = ev_expr(c['rev'][col], x)
                    got = float(tg.generator_on_product_reversible(basis, s, col, x, sig))
                    if abs(got - want) > 1e-9 * max(1.0, abs(want)):
                        out.append(('generator_on_product_reversible:value', 'grad(prod f) . sigma[:, %d] = %r, symbolic value %r (s=%r)' % (
                            col, got, want, s)))
                        break
                if out:
                    break
            return out
        if task == 'ou':
            x = np.array(exp['x'], dtype=float)
            m = x.shape[1]
            basis = [[make_fn(f) for f in mode] for mode in exp['basis']]
            th = np.array(cfg['theta'], dtype=float)
            b = -th[:, None] * x
            sigma = np.repeat((cfg['sig'] * np.eye(2))[:, :, None], m, axis=2)
            want = np.sort(np.array(exp['eig'], dtype=float))
            for opt in ('eigenfunctionevals', 'eigenvectors', 'eigentensors'):
                ev, _, ranks = quiet(tg.amuset_hosvd, x, basis, sigma, b=b, threshold=1e-10, return_option=opt)
                ev = np.sort(np.real(np.asarray(ev)))
                if ev.shape != want.shape or np.max(np.abs(ev - want)) > 1e-6 * max(1.0, np.max(np.abs(want))):
                    out.append(('amuset:ou:eigenvalues', 'eigenvalues %r, exact OU spectrum %r (theta %r, option %s)' % (
                        np.round(ev, 6), want, cfg['theta'], opt)))
                    break
            return out
        # general configurations
        x = caller_array(np.array(exp['x'], dtype=float), cfg['seed'])      # read-only data (Fortran-ordered for odd seeds)
        d, m = x.shape
        _basis = [[make_fn(f) for f in mode] for mode in cfg['basis']]
        basis = lambda: _basis        # one list of function objects for all calls (and the same data arrays: see C19_b)
        sig = caller_array(np.stack([np.array(s_, dtype=float) for s_ in exp['sig']], axis=2), cfg['seed'] + 1)     # d x d2 x m
        b = caller_array(np.array(exp['b'], dtype=float).T, 0)                          # d x m (a transposed view)
        w = caller_array(np.array(exp['w'], dtype=float), 0) if cfg['rew'] else None
        ww = w if w is not None else np.ones(m)
        psi = psi_from_leaves(leaf_values(exp['leaves']))
        P = psi.reshape(-1, m)
        Pw = P * np.sqrt(ww)[None, :]
        s = np.linalg.svd(Pw, compute_uv=False)
        if s[0] == 0 or np.any((s / s[0] > 1e-12) & (s / s[0] < 1e-6)):
            return []
        ns = [len(mode) for mode in cfg['basis']]
        tuples = list(itertools.product(*[range(n) for n in ns]))
        bl = basis()
        if cfg['rev']:
            # C = sum_l w_l dPsi_l a_l dPsi_l^T ; eigenvalues of -1/2 C pinv(Pw Pw^T)
            C = np.zeros((len(tuples), len(tuples)))
            for l in range(m):
                dP = np.array([[tg.generator_on_product_reversible(bl, t, i, x[:, l], np.eye(d)) for i in range(d)] for t in tuples])
                a = sig[:, :, l] @ sig[:, :, l].T
                C += ww[l] * dP @ a @ dP.T
            K = -0.5 * C @ np.linalg.pinv(Pw @ Pw.T, rcond=1e-11)
        else:
            LP = np.array([[tg.generator_on_product(bl, t, x[:, l], b[:, l], sig[:, :, l]) for l in range(m)] for t in tuples])
            K = (LP * np.sqrt(ww)[None, :]) @ np.linalg.pinv(Pw, rcond=1e-11)
        ref = np.linalg.eigvals(K)
        r = int(np.sum(s / s[0] > 1e-11))
        ref = ref[np.argsort(-np.abs(ref))][:r]
        # conditioning: compare with the reduced computation
        U, sv, Vh = np.linalg.svd(Pw, full_matrices=False)
        U, sv, Vh = U[:, :r], sv[:r], Vh[:r]
        if cfg['rev']:
            M2 = -0.5 * np.diag(1 / sv) @ U.T @ C @ U @ np.diag(1 / sv)
        else:
            M2 = Vh @ (LP * np.sqrt(ww)[None, :]).T @ U @ np.diag(1 / sv)
        ref2 = np.linalg.eigvals(M2)
        scale = max(1.0, float(np.max(np.abs(ref2))))
        if np.max(np.abs(np.sort(ref.real) - np.sort(ref2.real))) > 1e-7 * scale or np.max(np.abs(ref2.imag)) > 1e-9 * scale:
            return []       # complex or ill-conditioned spectrum: outside the precondition
        kw = dict(threshold=1e-10)
        if w is not None:
            kw['reweight'] = w
        if not cfg['rev']:
            kw['b'] = b
        for opt in ('eigenfunctionevals', 'eigenvectors'):
            ev, _, ranks = quiet(tg.amuset_hosvd, x, basis(), sig, return_option=opt, **kw)
            ev = np.asarray(ev)
            if ev.shape != ref2.shape or np.max(np.abs(np.sort(np.real(ev)) - np.sort(ref2.real))) > 1e-6 * scale:
                out.append(('amuset:%s:eigenvalues' % ('rev' if cfg['rev'] else 'nonrev'),
                            'eigenvalues %r differ from the dense projected generator %r (d=%d m=%d reweight=%r)' % (
                                np.round(np.sort(np.real(ev)), 6), np.round(np.sort(ref2.real), 6), d, m, cfg['rew'])))
                break
            if np.any(np.diff(np.real(ev)) > 1e-9 * scale):
                out.append(('amuset:order', 'eigenvalues are not returned in descending order'))
                break
            # slow dynamics: drift x 2^-34, diffusion x 2^-17 scale the generator (and its spectrum) by 2^-34
            kws = dict(kw)
            if 'b' in kws:
                kws['b'] = caller_array(np.array(b) * 2.0 ** -34, 0)
            evs, _, _ = quiet(tg.amuset_hosvd, x, basis(), caller_array(np.array(sig) * 2.0 ** -17, 1), return_option=opt, **kws)
            evs = np.asarray(evs)
            if evs.shape != ev.shape or np.max(np.abs(np.sort(np.real(evs)) * 2.0 ** 34 - np.sort(np.real(ev)))) > 1e-6 * scale:
                out.append(('amuset:scaled-coefficients', 'drift x 2^-34 and diffusion x 2^-17 do not give the spectrum scaled by 2^-34: %r vs %r' % (
                    np.round(np.sort(np.real(evs)) * 2.0 ** 34, 6), np.round(np.sort(np.real(ev)), 6))))
                break
            # lattice data stored with an integer dtype
            evi, _, _ = quiet(tg.amuset_hosvd, x.astype(np.int64), basis(), sig, return_option=opt, **kw)
            evi = np.asarray(evi)
            if evi.shape != ev.shape or np.max(np.abs(np.real(evi) - np.real(ev))) > 1e-6 * scale:
                out.append(('amuset:int-dtype', 'integer-typed data matrix changed the eigenvalues: %r vs %r' % (np.round(np.real(evi), 6), np.round(np.real(ev), 6))))
                break
            # a rank cap that does not bind (number of snapshots) must not change anything
            evc, _, _ = quiet(tg.amuset_hosvd, x, basis(), sig, return_option=opt, max_rank=m, **kw)
            evc = np.asarray(evc)
            if evc.shape != ev.shape or np.max(np.abs(np.real(evc) - np.real(ev))) > 1e-6 * scale:
                out.append(('amuset:max_rank', 'max_rank=%d (not binding) changed the eigenvalues: %r vs %r' % (m, np.round(np.real(evc), 6), np.round(np.real(ev), 6))))
                break
            # num_eigvals = k returns the first k of them (relative threshold: the same cut of exact zeros)
            if len(ev) >= 2:
                k = 1 + (m % min(2, len(ev) - 1 if len(ev) > 2 else 1))
                evk, fk, _ = quiet(tg.amuset_hosvd, x, basis(), sig, return_option=opt, num_eigvals=k, **dict(kw, rel_threshold=True))
                evk = np.asarray(evk)
                if evk.shape != (k,) or np.max(np.abs(np.real(evk) - np.real(ev[:k]))) > 1e-6 * scale:
                    out.append(('amuset:num_eigvals', 'num_eigvals=%d returned %r, the first eigenvalues of the full call are %r' % (
                        k, np.round(np.real(evk), 6), np.round(np.real(ev[:k]), 6))))
                    break
        if not cfg['rev'] and not out:
            # pure diffusion given in the non-reversible form: a drift array that is identically zero is still "drift given"
            # (the generator is 1/2 a : hess, not the reversible gradient form unless the data follow the invariant measure)
            b0 = np.zeros_like(np.array(b))
            LP0 = np.array([[tg.generator_on_product(bl, t, x[:, l], b0[:, l], sig[:, :, l]) for l in range(m)] for t in tuples])
            K0 = (LP0 * np.sqrt(ww)[None, :]) @ np.linalg.pinv(Pw, rcond=1e-11)
            r0 = np.linalg.eigvals(K0)
            r0 = r0[np.argsort(-np.abs(r0))][:r]
            M0 = Vh @ (LP0 * np.sqrt(ww)[None, :]).T @ U @ np.diag(1 / sv)
            ref0 = np.linalg.eigvals(M0)
            sc0 = max(1.0, float(np.max(np.abs(ref0))))
            if np.max(np.abs(np.sort(r0.real) - np.sort(ref0.real))) <= 1e-7 * sc0 and np.max(np.abs(ref0.imag)) <= 1e-9 * sc0:
                ev0 = np.asarray(quiet(tg.amuset_hosvd, x, basis(), sig, return_option='eigenvectors', **dict(kw, b=b0))[0])
                if ev0.shape != ref0.shape or np.max(np.abs(np.sort(np.real(ev0)) - np.sort(ref0.real))) > 1e-6 * sc0:
                    out.append(('amuset:nonrev:zero-drift', 'drift array of zeros: eigenvalues %r differ from the dense projected generator '
                                '1/2 a : hess %r (d=%d m=%d)' % (np.round(np.sort(np.real(ev0)), 6), np.round(np.sort(ref0.real), 6), d, m)))
        if not out:
            # second use: one snapshot buffer and one basis list for two calls; the buffer holds other data for the first call and is
            # refilled in place with x for the second one, whose result must be that of x
            buf = np.array(np.asarray(x)[:, ::-1] * 0.5 + 0.25, dtype=float, order='C')
            try:
                quiet(tg.amuset_hosvd, buf, basis(), sig, return_option='eigenvectors', **kw)
            except Exception:
                pass
            buf[:] = x
            ev2 = np.asarray(quiet(tg.amuset_hosvd, buf, basis(), sig, return_option='eigenvectors', **kw)[0])
            if ev2.shape != ref2.shape or np.max(np.abs(np.sort(np.real(ev2)) - np.sort(ref2.real))) > 1e-6 * scale:
                out.append(('amuset:second-use', 'snapshot buffer refilled in place between two calls (same array and basis-list objects): '
                            'eigenvalues %r differ from the dense projected generator %r' % (np.round(np.sort(np.real(ev2)), 6), np.round(np.sort(ref2.real), 6))))
    except Exception as e:
        out.append(('%s:exception:%s' % (task, type(e).__name__), '%r' % (e,)))
    return out


def quiet(f, *a, **kw):
    import contextlib
    import io
    with contextlib.redirect_stdout(io.StringIO()):
        return f(*a, **kw)


def runs(tier):
    return [dict(name='gedmd', module='GEdmd', constants=dict(Level=1 if tier == 'quick' else 2),
                 init='GInit', next='GNext', emit='GEmit')]


def main(tier):
    return casecheck.run('C19', tier, runs(tier), 'harness.props.c19', 'replay', ASSUME, RULE)
