"""C05 - global SVD and pseudoinverse of a tensor train match the matrix ones."""
from .. import poolcheck

ASSUME = [
    'vector-type trains (column dimensions 1), split indices 1..d-1',
    'the comparison of singular values / pseudoinverse of general integer tensors uses numpy.linalg.svd / pinv of the exact unfolding (numeric evaluator, trusted base); islands carry their planted spectrum exactly',
    'pinv with threshold 0 on a rank-deficient unfolding is undefined (reciprocal of 0): the model calls pinv with the relative cut-off 1e-12, which removes exactly the zero singular values of an integer unfolding; the zero tensor is excluded',
    'cut-offs / max_rank that remove planted singular values are only used on un-gauged islands, where the effect of the sweeps is determined; ortho_l/ortho_r=False only after the corresponding sweep',
    'self after overwrite=True is treated as consumed',
]
RULE = ('TLC enumerates shapes x fills (real, complex, rank-deficient) x every split index x overwrite, and the island '
        'catalogue (gauged and un-gauged) x thresholds x rank caps x orthonormalisation flags; the replay checks '
        'isometry of u and v, u diag(s) v = tensor, singular values (planted / numpy), the Penrose pseudoinverse, and '
        'that the operand is unchanged (pool clause)')


def runs(tier):
    q = tier == 'quick'
    base = dict(MaxD=3 if q else 4, MaxDB=1, DimsR={1, 2, 3} if q else {2, 3}, DimsC={1}, RanksS={1, 2, 3}, Seeds={1},
                MaxDepth=1, EmitAll=False, Vias={'matmul'}, QL=1, OWs={False, True}, Lean=True, IslLevel=1 if q else 2)
    out = []
    out.append(dict(name='gen', constants=dict(base, Scenarios={'single'}, Ops={'Svd', 'Pinv'},
                                               KindPairs={('real', 'real'), ('complex', 'complex'), ('def', 'def'), ('cdef', 'cdef'), ('mixedL', 'mixedL')})))
    out.append(dict(name='isl', nshards=8, constants=dict(base, MaxD=4, Scenarios={'odeco'}, Ops={'Svd', 'Pinv', 'SvdOpt', 'PinvThr'},
                                                          KindPairs={('real', 'real')})))
    out.append(dict(name='flags', constants=dict(base, MaxD=3, RanksS={2}, Scenarios={'single'}, MaxDepth=2,
                                                 OpsAt=[{'OrthoLeft', 'OrthoRight', 'Ortho'}, {'SvdOpt', 'Svd'}],
                                                 KindPairs={('mixed1', 'mixed1')} if q else {('complex', 'complex'), ('mixedL', 'mixedL')})))
    # trains whose equal cores are ONE array object at several positions (TT([x] * d), [a, M, M, b]): calls that are
    # documented to work on a copy (overwrite=False) must not be disturbed by that.  (In-place sweeps on such a train are
    # outside the domain: a train owns its core arrays - LAPACK overwrites them at rank-1 bonds.)
    out.append(dict(name='rep', constants=dict(base, MaxD=4, DimsR={2, 3}, RanksS={1, 2}, OWs={False}, Scenarios={'single'},
                                               Ops={'Svd', 'Pinv'}, KindPairs={('rep', 'rep')})))
    out.append(dict(name='big', nshards=4, constants=dict(base, MaxD=5, DimsR={4}, DimsC={1}, RanksS={4}, Scenarios={'single'},
                                                          Ops={'Svd', 'Pinv'}, KindPairs={('real', 'real'), ('complex', 'complex')})))
    return out


def main(tier):
    return poolcheck.run('C05', tier, runs(tier), ASSUME, RULE)
