"""C12 - Markov operators built from reactions (SLIM) or transitions (Ulam) equal their definition."""
import numpy as np

from .. import casecheck
from ..pool import contract, metadata_problem, carray

ASSUME = [
    'reactant and product states inside the state space, positive integer rates (exactly representable)',
    'tolerance 1e-10 relative to the largest rate; threshold in {0, 1e-14, 1e-12}',
    'trusted base: TLC evaluation of spec/Slim.tla (reference generator by state enumeration; the reference itself is checked by TLC to have zero column sums and non-negative off-diagonals), harness projection',
]
RULE = ('TLC enumerates state-space vectors (equal and unequal cell sizes), numbers of single-/two-cell reactions, seeds '
        'of the reaction lists, open/cyclic, homogeneous wrapper, plus every single two-cell reaction on two cells '
        '(exhaustive), and Ulam transition tables on 2-D/3-D grids; the exact generator / count table is computed by '
        'state enumeration; the TT operator returned by the library is contracted and compared')


def replay(case):
    import scikit_tt.slim as slim
    import scikit_tt.data_driven.ulam as ulam
    cfg, exp = case['cfg'], case['expect']
    want = carray(exp['v']).real
    out = []
    if cfg['kind'] == 'slim':
        ss = list(cfg['ss'])
        d = len(ss)
        shape_sig = 'cyclic' if cfg['cyclic'] else 'open'
        # the argument lists are built once and used for both calls (a call must not consume or rewrite them)
        scr_h, tcr_h = [list(r) for r in cfg['scr'][0]], [list(r) for r in cfg['tcr'][0]]
        scr_l = [[list(r) for r in cell] for cell in cfg['scr']]
        tcr_l = [[list(r) for r in bond] for bond in cfg['tcr']]
        for thr in (0, 1e-14, 1e-12):
            try:
                if cfg['hom']:
                    op = slim.slim_mme_hom(ss, scr_h, tcr_h, cyclic=cfg['cyclic'], threshold=thr)
                else:
                    op = slim.slim_mme(ss, scr_l, tcr_l, threshold=thr)
            except Exception as e:
                out.append(('slim:%s:exception:%s' % (shape_sig, type(e).__name__), 'slim_mme raised %r for %r' % (e, cfg)))
                break
            pm = metadata_problem(op)
            if pm:
                out.append(('slim:%s:metadata' % shape_sig, pm))
                break
            if list(op.row_dims) != ss or list(op.col_dims) != ss:
                out.append(('slim:%s:dims' % shape_sig, 'dims %r %r, expected %r' % (op.row_dims, op.col_dims, ss)))
                break
            got = contract(op.cores).reshape(-1)
            scale = max(1.0, float(np.max(np.abs(want))))
            err = float(np.max(np.abs(got - want)))
            if not err <= 1e-10 * scale:
                out.append(('slim:%s:value' % shape_sig,
                            'generator differs from the sum of elementary reaction terms: max abs error %.3e (threshold=%g) cfg=%r'
                            % (err, thr, {k: cfg[k] for k in ('ss', 'cyclic', 'hom')})))
                break
            N = int(np.prod(ss))
            G = got.reshape(N, N)
            if np.max(np.abs(G.sum(axis=0))) > 1e-10 * scale or np.min(G - np.diag(np.diag(G))) < -1e-10 * scale:
                out.append(('slim:%s:generator' % shape_sig, 'column sums / off-diagonal signs violated'))
                break
        if not out:
            # second use of the caller's reaction lists: every rate doubled in place after the first build, built again
            try:
                for lst in ([scr_h, tcr_h] if cfg['hom'] else scr_l + tcr_l):
                    for r in lst:
                        r[-1] = 2 * r[-1]
                op2 = slim.slim_mme_hom(ss, scr_h, tcr_h, cyclic=cfg['cyclic'], threshold=0) if cfg['hom'] else slim.slim_mme(ss, scr_l, tcr_l, threshold=0)
                got2 = contract(op2.cores).reshape(-1) if not metadata_problem(op2) else None
                sc2 = max(1.0, float(np.max(np.abs(want)))) * 2
                if got2 is None or got2.shape != want.shape or not float(np.max(np.abs(got2 - 2 * want))) <= 1e-10 * sc2:
                    out.append(('slim:%s:second-use' % shape_sig, 'rates of the caller\'s reaction lists doubled in place between two builds: the second '
                                'generator is not twice the first (cfg=%r)' % ({k: cfg[k] for k in ('ss', 'cyclic', 'hom')},)))
            except Exception as e:
                out.append(('slim:%s:second-use:exception:%s' % (shape_sig, type(e).__name__), repr(e)))
    else:
        grid = list(cfg['grid'])
        tab = np.array(cfg['tab'], dtype=int).T          # rows x_1..x_g, y_1..y_g ; one column per transition
        try:
            op = (ulam.ulam_2d if len(grid) == 2 else ulam.ulam_3d)(tab, grid, cfg['sims'])
            # transition tables as they are stored on disk: narrow unsigned integers (box numbers fit easily)
            op8 = (ulam.ulam_2d if len(grid) == 2 else ulam.ulam_3d)(np.asarray(tab).astype(np.uint8), grid, cfg['sims'])
            if metadata_problem(op8) or contract(op8.cores).shape != contract(op.cores).shape or \
                    np.max(np.abs(contract(op8.cores) - contract(op.cores))) > 1e-12:
                out.append(('ulam:value:uint8', 'a uint8 transition table gives a different operator than the same table as int64 (grid %r)' % (grid,)))
        except Exception as e:
            return [('ulam:exception:%s' % type(e).__name__, 'ulam raised %r' % (e,))]
        pm = metadata_problem(op)
        if pm:
            return [('ulam:metadata', pm)]
        if list(op.row_dims) != grid or list(op.col_dims) != grid:
            return [('ulam:dims', 'dims %r %r' % (op.row_dims, op.col_dims))]
        got = contract(op.cores).reshape(-1) * cfg['sims']
        if np.max(np.abs(got - want)) > 1e-10:
            out.append(('ulam:value', 'entries are not transition counts / simulations: max abs error %.3e' %
                        np.max(np.abs(got - want))))
    return out


def runs(tier):
    q = tier == 'quick'
    base = dict(MaxD=3, Sizes={2, 3}, NSingle={0, 2} if q else {0, 1, 2}, NTwo={1, 3} if q else {1, 2, 3},
                Seeds={1, 2} if q else {1, 2, 3, 4}, ExhaustiveD2=True,
                UlamGrids={(2, 2), (2, 3), (3, 2), (2, 2, 2), (3, 2, 2), (17, 2, 18), (17, 16), (3, 1), (1, 3), (2, 1, 3), (3, 2, 1), (1, 2, 2)} if q else
                {(2, 2), (2, 3), (3, 2), (3, 3), (2, 2, 2), (3, 2, 2), (2, 3, 2), (2, 2, 3), (17, 2, 18), (17, 16), (19, 3, 17), (3, 1), (1, 3), (4, 1), (2, 1, 3), (3, 2, 1), (1, 2, 2), (1, 1, 3)},
                UlamN={1, 5, 9} if q else {1, 3, 5, 9, 14})
    out = [dict(name='slim', module='Slim', constants=base, invariants=['ColumnSumsZero', 'OffDiagNonNeg', 'UlamTotal'])]
    # order 4 (two interior cores: pass-through blocks of cyclic chains next to each other)
    out.append(dict(name='slim4', module='Slim', invariants=['ColumnSumsZero', 'OffDiagNonNeg', 'UlamTotal'],
                    constants=dict(base, MaxD=4, Sizes={2} if q else {2, 3}, NSingle={1}, NTwo={2}, Seeds={1, 2}, ExhaustiveD2=False,
                                   UlamGrids={(2, 2)}, UlamN={1})))
    # many reactions per bond: the super-cores reach full rank min(n1^2, n2^2), so that a non-zero threshold removes nothing
    out.append(dict(name='slimfull', module='Slim', invariants=['ColumnSumsZero', 'OffDiagNonNeg', 'UlamTotal'],
                    constants=dict(base, MaxD=3, Sizes={2} if q else {2, 3}, NSingle={1}, NTwo={6, 9} if q else {6, 9, 14},
                                   Seeds={1, 2, 3}, ExhaustiveD2=False, UlamGrids={(2, 2)}, UlamN={1})))
    return out


def main(tier):
    return casecheck.run('C12', tier, runs(tier), 'harness.props.c12', 'replay', ASSUME, RULE)
