"""C20 - quantum sampling draws from the Born distribution of the measured qubits."""
from unittest import mock

import numpy as np

from .. import casecheck
from ..pool import core_arrays

ASSUME = [
    'the state handed to the sampler is normalised and right-orthonormal (built from the integer cores by ortho_right and division by the norm); measured sites given as a sorted list',
    'uniform variates are the dyadic rationals a/1024 chosen by the specification; configurations in which a variate equals a threshold exactly are discarded by the model (state constraint)',
    'convergence clause: 20011 samples from a seeded generator, total-variation distance to the exact marginal below 0.05',
    'trusted base: TLC evaluation of spec/Sampling.tla (exact integer marginals; ChainRule / PrefixPossible invariants)',
]
RULE = ('TLC runs the site-by-site inverse-CDF machine of spec/Sampling.tla for every qubit count, rank profile, fill, '
        'non-empty measured subset and variate matrix within bounds and emits the exact predicted samples; the real '
        'sampler is run with numpy.random.rand patched to the same variates and must return the same distinct bit '
        'strings and frequencies')


class _Unbound(Exception):
    pass


def convergence(qc, t, meas, case, n, force=False):
    """frequencies of many samples (seeded generator) converge to the exact marginal"""
    if not force and (n + len(meas) + len(case['cores'][0][0][0][0])) % 4 != 0:
        return []
    dist = np.array(case['dist'], dtype=float) / case['total']
    np.random.seed(12345 + n)
    N = 20011
    samples, probs = qc.sampling(t, meas, N)
    emp = np.zeros(len(dist))
    for r, p in zip(np.asarray(samples).reshape(len(samples), -1), probs):
        k = int(''.join(str(int(x)) for x in r), 2)
        emp[k] = p
    tv = 0.5 * float(np.sum(np.abs(emp - dist)))
    if tv > 0.05:
        return [('sampling:convergence', 'total variation %.3f between frequencies of %d samples and the exact '
                                         'marginal (n=%d, meas=%r)' % (tv, N, n, meas))]
    return []


def post_hook(artifacts, rep, tier):
    n = sum(1 for sig, _ in artifacts if sig == '@unbound')
    if n:
        rep.note('prediction clause not bound in %d cases (%s); convergence clause evaluated instead' % (n, artifacts[0][1]))
    return dict(prediction_clause_unbound_cases=n)


def replay_product(case):
    """product states of many qubits (more measured sites than a float64 mantissa has bits)"""
    import scikit_tt.quantum_computation as qc
    from scikit_tt.tensor_train import TT
    n, meas = case['n'], list(case['meas'])
    cores = []
    for a0, a1 in case['amps']:
        v = np.array([a0, a1], dtype=float)
        cores.append((v / np.linalg.norm(v)).reshape(1, 2, 1, 1))
    t = TT(cores)
    u = np.array(case['u'], dtype=float)[:, :len(meas)] / 1024.0
    rows = [tuple(r) for r in case['rows']]
    want_rows = sorted(set(rows))
    want_freq = [rows.count(r) / len(rows) for r in want_rows]
    calls = []

    def fake_rand(*shape):
        calls.append(tuple(shape))
        if tuple(shape) != u.shape:
            raise _Unbound()
        return u.copy()
    try:
        with mock.patch('numpy.random.rand', side_effect=fake_rand):
            samples, probs = qc.sampling(t, meas, len(rows))
        if len(calls) != 1:
            raise _Unbound()
    except _Unbound:
        # the sampler draws its variates differently (e.g. numpy.random.random_sample): the prediction clause is not bound
        return [('@unbound', 'variates not drawn by one numpy.random.rand(samples, sites) call')]
    except Exception as e:
        return [('sampling:product:exception:%s' % type(e).__name__, 'sampling raised %r (n=%d)' % (e, n))]
    got_rows = [tuple(int(x) for x in r) for r in np.asarray(samples).reshape(len(samples), -1)]
    if got_rows != want_rows:
        k = next((j for j, (a, b) in enumerate(zip(got_rows, want_rows)) if a != b), 0)
        return [('sampling:product:samples', 'product state of %d qubits, %d measured: %d bit strings returned, %d predicted; first difference '
                 'at string %d' % (n, len(meas), len(got_rows), len(want_rows), k))]
    if len(set(got_rows)) != len(got_rows) or np.max(np.abs(np.asarray(probs) - np.array(want_freq))) > 1e-12:
        return [('sampling:product:frequencies', 'frequencies differ from the prediction (n=%d)' % n)]
    # second use of the same state object: an X gate is applied in place to the first measured qubit (its two amplitudes are
    # exchanged: still a normalised right-orthonormal product state) and the same sites are measured again with the same
    # variates.  Only that qubit's bit changes: bit = [u > |a1|^2 / (|a0|^2 + |a1|^2)] (exact rational comparison).
    from fractions import Fraction
    k0 = meas[0]
    a0, a1 = case['amps'][k0]
    p0new = Fraction(int(a1) ** 2, int(a0) ** 2 + int(a1) ** 2)
    us = [Fraction(int(r[0]), 1024) for r in case['u']]
    if any(u_ == p0new for u_ in us):
        return []
    rows2 = [tuple([1 if us[j] > p0new else 0] + list(r[1:])) for j, r in enumerate(rows)]
    want2 = sorted(set(rows2))
    freq2 = [rows2.count(r) / len(rows2) for r in want2]
    t.cores[k0] = t.cores[k0][:, ::-1, :, :].copy()
    calls.clear()
    try:
        with mock.patch('numpy.random.rand', side_effect=fake_rand):
            s2, p2 = qc.sampling(t, meas, len(rows))
        if len(calls) != 1:
            raise _Unbound()
    except _Unbound:
        return []
    except Exception as e:
        return [('sampling:product:second-use:exception:%s' % type(e).__name__, repr(e))]
    got2 = [tuple(int(x) for x in r) for r in np.asarray(s2).reshape(len(s2), -1)]
    if got2 != want2 or np.max(np.abs(np.asarray(p2) - np.array(freq2))) > 1e-12:
        return [('sampling:product:second-use', 'X gate applied in place to qubit %d of the state object between two measurements of the same '
                 'sites: the second result is not the prediction for the new state (n=%d, %d strings returned, %d predicted)' % (
                     k0, n, len(got2), len(want2)))]
    return []


def replay(case):
    if case.get('prod'):
        return replay_product(case)
    import scikit_tt.quantum_computation as qc
    from scikit_tt.tensor_train import TT
    out = []
    n = case['n']
    t = TT(core_arrays(case['cores']))
    t = t.ortho_right()
    nrm = np.linalg.norm(t.cores[0].reshape(-1))
    t.cores[0] = t.cores[0] / nrm
    meas = list(case['meas'])
    u = np.array(case['u'], dtype=float) / 1024.0
    rows = [tuple(r) for r in case['rows']]
    want_rows = sorted(set(rows))
    want_freq = [rows.count(r) / len(rows) for r in want_rows]
    sig = 'n%d' % n
    # binding of the variates: the sampler draws one (samples x measured sites) array from numpy.random.rand.  If a
    # re-implementation draws its variates differently the prediction clause is not bound (artifact '@unbound'), the
    # convergence clause below still applies.
    calls = []

    def fake_rand(*shape):
        calls.append(tuple(shape))
        if tuple(shape) != u.shape:
            raise _Unbound()
        return u.copy()
    try:
        with mock.patch('numpy.random.rand', side_effect=fake_rand):
            samples, probs = qc.sampling(t, meas, len(rows))
        if len(calls) != 1:
            raise _Unbound()
    except _Unbound:
        return [('@unbound', 'variates not drawn by one numpy.random.rand(samples, sites) call: %r' % (calls[:3],))] + \
            convergence(qc, t, meas, case, n, force=True)
    except Exception as e:
        return [('sampling:exception:%s' % type(e).__name__, 'sampling raised %r (n=%d meas=%r)' % (e, n, meas))]
    samples = np.asarray(samples)
    got_rows = [tuple(int(x) for x in r) for r in samples.reshape(len(samples), -1)]
    if got_rows != want_rows:
        return [('sampling:samples', 'distinct bit strings %r, inverse-CDF prediction %r (n=%d, meas=%r)' % (
            got_rows, want_rows, n, meas))]
    if len(set(got_rows)) != len(got_rows):
        out.append(('sampling:distinct', 'returned bit strings are not distinct'))
    if np.max(np.abs(np.asarray(probs) - np.array(want_freq))) > 1e-12 or abs(float(np.sum(probs)) - 1) > 1e-12:
        out.append(('sampling:frequencies', 'frequencies %r, predicted %r' % (list(probs), want_freq)))
    # mixed dtypes: a real state with phase gates diag(1, i) on the qubits 1.. (first core real, the others complex).
    # Phases do not change the Born probabilities of the computational basis, so the prediction is the same.
    if not out and n >= 2 and all(np.isrealobj(c) for c in t.cores):
        t2 = t.copy()
        for k in range(1, n):
            c = t2.cores[k].astype(complex)
            c[:, 1, :, :] *= 1j
            t2.cores[k] = c
        calls.clear()
        try:
            with mock.patch('numpy.random.rand', side_effect=fake_rand):
                s2, p2 = qc.sampling(t2, meas, len(rows))
            rows2 = [tuple(int(x) for x in r) for r in np.asarray(s2).reshape(len(s2), -1)]
            if rows2 != want_rows or np.max(np.abs(np.asarray(p2) - np.array(want_freq))) > 1e-12:
                out.append(('sampling:mixed-dtype', 'real state with phase gates on qubits 1.. (real first core, complex other cores): bit strings %r '
                            'frequencies %r, predicted %r %r (n=%d, meas=%r)' % (rows2, list(p2), want_rows, want_freq, n, meas)))
        except _Unbound:
            pass
        except Exception as e:
            out.append(('sampling:mixed-dtype:exception:%s' % type(e).__name__, repr(e)))
    # other sample counts, predicted from the same variates (the inverse-CDF map acts on each row of variates separately):
    # one sample (the first row), and 1029 copies of the variate matrix (12348 or 24696 samples: not a round number, more
    # than any block size a sampler would work in)
    if not out:
        for label, uu, rr in (('one sample', u[:1], rows[:1]), ('%d samples' % (1029 * len(rows)), np.tile(u, (1029, 1)), rows * 1029)):
            wr = sorted(set(rr))
            wf = [rr.count(r) / len(rr) for r in wr]

            def fake2(*shape, _uu=uu):
                if tuple(shape) != _uu.shape:
                    raise _Unbound()
                return _uu.copy()
            try:
                with mock.patch('numpy.random.rand', side_effect=fake2):
                    s3, p3 = qc.sampling(t, meas, len(rr))
                rows3 = [tuple(int(x) for x in r) for r in np.asarray(s3).reshape(len(s3), -1)]
                if rows3 != wr or np.max(np.abs(np.asarray(p3) - np.array(wf))) > 1e-12:
                    out.append(('sampling:sample-count', '%s (the variates of the base case%s): bit strings %r frequencies %r, predicted %r %r '
                                '(n=%d, meas=%r)' % (label, '' if len(rr) == 1 else ', repeated', rows3[:6], list(p3)[:6], wr[:6], wf[:6], n, meas)))
                    break
            except _Unbound:
                pass
            except Exception as e:
                out.append(('sampling:sample-count:exception:%s' % type(e).__name__, '%s: %r' % (label, e)))
                break
    out += convergence(qc, t, meas, case, n)
    return out


def runs(tier):
    q = tier == 'quick'
    c = dict(MaxN=4, RanksS={1, 2} if q else {1, 2, 3}, Kinds={'real', 'complex'}, Seeds={1, 2, 3} if q else {1, 2, 3, 4, 5},
             NSamples=12 if q else 24)
    return [dict(name='samp', module='Sampling', constants=c, invariants=['ChainRule', 'PrefixPossible'],
                 constraints=['NoTieConstraint']),
            # product states of 56 and 60 qubits
            dict(name='prod', module='SamplingProd', nshards=4, invariants=['ProbOK'], constraints=['NoTieConstraint'],
                 constants=dict(NQ={56, 60}, NSamples=12 if q else 40, Seeds={1, 2} if q else {1, 2, 3, 4}))]


def main(tier):
    return casecheck.run('C20', tier, runs(tier), 'harness.props.c20', 'replay', ASSUME, RULE)
