"""C08 - ALS eigen-solver returns consistent Ritz pairs and keeps exact eigenpairs; inverse power iteration."""
import numpy as np
import scipy.linalg as sl

from .. import casecheck
from ..pool import contract, metadata_problem, core_arrays, value_snapshot, value_changed

ASSUME = [
    'islands of spec/EigSolve.tla: Hermitian A = G^H G + 2I or G + G^H, B = C^H C + I with exact integer TT cores; guesses with full-rank interfaces',
    'reference spectra: scipy.linalg.eigh of the exact dense pencil (numeric evaluator); clauses about a particular eigenpair are only evaluated when that eigenvalue is separated from its neighbours by 1e-3 of the spectral width',
    'targets are extremal (sigma beyond an end of the spectrum, or solver eigh = largest); number_ev = 1, conv_eps = 0 for the monotonicity clause; deflation on standard problems',
    'tolerances 1e-8 (Rayleigh consistency, exactness), 1e-6 (power iteration after 25 steps with contraction factor <= 0.2)',
]
RULE = ('TLC enumerates mode sizes, operator ranks, definite/indefinite, standard/generalised, real/complex, seeds and every '
        'admissible rank profile of the guess and builds the exact TT cores; the replay runs evp.als (eig/eigh/eigs, '
        'repeats 1..3, deflation with 1 and 2 tensors) and evp.power_method and checks the contract clauses')


def vec(t):
    return contract(t.cores).reshape(-1)


def tt_of_vector(TT, v, dims):
    d = len(dims)
    return TT(np.asarray(v).reshape(list(dims) + [1] * d))


def replay(case):
    import scikit_tt.solvers.evp as evp
    import scikit_tt.tensor_train as ttm
    from scikit_tt.tensor_train import TT
    cfg, isl = case['cfg'], case['isl']
    dims = list(cfg['dims'])
    d = len(dims)
    N = int(np.prod(dims))
    A = TT(core_arrays(isl['A']))
    B = TT(core_arrays(isl['B'])) if cfg['gen'] else None
    x0 = TT(core_arrays(isl['x0']))
    xfull = TT(core_arrays(isl['xfull']))
    Ad = contract(A.cores).reshape(N, N)
    Bd = contract(B.cores).reshape(N, N) if B is not None else np.eye(N)
    w, V = sl.eigh(Ad, Bd)
    width = max(1e-12, float(w[-1] - w[0]))
    scale = max(1.0, float(np.max(np.abs(w))))
    cplx = cfg['cplx']
    kind = ('cplx' if cplx else 'real') + (':gen' if cfg['gen'] else '')
    out = []
    snaps = value_snapshot((A, x0, xfull) + ((B,) if B is not None else ()))

    def rq(x):
        return complex((x.conj() @ Ad @ x) / (x.conj() @ Bd @ x))

    def consistent(lam, t, tag):
        pm = metadata_problem(t)
        if pm:
            out.append(('%s:metadata' % tag, pm))
            return False
        if list(t.row_dims) != dims:
            out.append(('%s:dims' % tag, 'eigentensor dims %r' % (t.row_dims,)))
            return False
        x = vec(t)
        r = rq(x)
        if abs(lam - r) > 1e-8 * scale:
            out.append(('%s:rayleigh:%s' % (tag, kind), 'returned eigenvalue %r is not the Rayleigh quotient %r of the returned tensor '
                        '(dims %r, guess ranks %r)' % (lam, r, dims, cfg['r0'])))
            return False
        if B is None and abs(np.linalg.norm(x) - 1) > 1e-8:
            out.append(('%s:norm' % tag, 'eigentensor has 2-norm %r' % np.linalg.norm(x)))
            return False
        if np.real(lam) > w[-1] + 1e-8 * scale:
            out.append(('%s:upper:%s' % (tag, kind), 'eigenvalue %r exceeds lambda_max %r' % (lam, w[-1])))
            return False
        return True

    top_sep = N == 1 or (w[-1] - w[-2]) > 1e-3 * width
    bot_sep = N == 1 or (w[1] - w[0]) > 1e-3 * width
    kw = dict(operator_gevp=B, conv_eps=0, real=not cplx)
    try:
        # ---- Rayleigh consistency, upper bound, monotonicity (low-rank guess)
        # (eigenvalue, eigentensor) must be a consistent pair for ANY target, also when later sweeps move away from it
        for solver, sigma in (('eigh', w[0] - 1.0), ('eigh', 0.5 * (w[0] + w[-1])), ('eig', 0.5 * (w[0] + w[-1]) + 0.123 * width)):
            dist = []
            for rep in (1, 2, 4):
                lam, t, it = evp.als(A, x0, repeats=rep, solver=solver, sigma=sigma, **kw)
                if not consistent(lam, t, 'als:%s:anytarget' % solver):
                    break
                dist.append(abs(lam - sigma))
            else:
                # the reported eigenvalue is the best one seen so far: more sweeps never report one farther from the target
                if any(dist[k + 1] > dist[k] + 1e-9 * scale for k in range(2)):
                    out.append(('als:%s:anytarget:monotone:%s' % (solver, kind), 'distance of the reported eigenvalue to the target %r grows '
                                'with the sweeps: %r' % (sigma, dist)))
        for solver, sigma in (('eigh', w[-1] + 1.0), ('eig', w[-1] + 1.0), ('eig', w[0] - 1.0)):
            tag = 'als:%s' % solver
            dist = []
            ok = True
            for rep in (1, 2, 3):
                lam, t, it = evp.als(A, x0, repeats=rep, solver=solver, sigma=sigma, **kw)
                if not consistent(lam, t, tag):
                    ok = False
                    break
                dist.append(abs(lam - sigma))
            if ok and any(dist[k + 1] > dist[k] + 1e-9 * scale for k in range(2)):
                out.append(('%s:monotone:%s' % (tag, kind), 'distance of the reported eigenvalue to the target grows with the sweeps: %r' % (dist,)))
        # ---- exact extremal eigentensor as guess / maximal-rank guess
        if top_sep:
            vt = V[:, -1]
            g = tt_of_vector(TT, vt if cplx else np.real(vt), dims)
            for solver in ('eigh', 'eig'):
                lam, t, it = evp.als(A, g, repeats=1, solver=solver, sigma=w[-1] + 1.0, **kw)
                if consistent(lam, t, 'als:%s' % solver):
                    x = vec(t)
                    ov = abs(x.conj() @ Bd @ vt) / np.sqrt(abs(x.conj() @ Bd @ x))
                    if abs(lam - w[-1]) > 1e-8 * scale or abs(ov - 1) > 1e-7:
                        out.append(('als:%s:fixedpoint:%s' % (solver, kind), 'exact dominant eigentensor as guess is not returned: '
                                    'lambda %r vs %r, overlap %r (dims %r)' % (lam, w[-1], ov, dims)))
                lam, t, it = evp.als(A, xfull, repeats=1, solver=solver, sigma=w[-1] + 1.0, **kw)
                if consistent(lam, t, 'als:%s' % solver):
                    x = vec(t)
                    ov = abs(x.conj() @ Bd @ vt) / np.sqrt(abs(x.conj() @ Bd @ x))
                    if abs(lam - w[-1]) > 1e-8 * scale or abs(ov - 1) > 1e-6:
                        out.append(('als:%s:fullrank:%s' % (solver, kind), 'guess of maximal ranks does not give the exact extremal '
                                    'eigenpair: lambda %r vs %r, overlap %r (dims %r)' % (lam, w[-1], ov, dims)))
                # operators of large and of tiny magnitude (A x 2^30, A x 2^-30): eigenvalues scale, eigenvectors stay
                for e2 in (30, -30):
                    fac = 2.0 ** e2
                    lam, t, it = evp.als(fac * A, xfull, repeats=1, solver=solver, sigma=(w[-1] + 1.0) * fac, **kw)
                    wl = w[-1] * fac
                    pm = metadata_problem(t)
                    x = vec(t) if not pm else None
                    ov = abs(x.conj() @ Bd @ vt) / np.sqrt(abs(x.conj() @ Bd @ x)) if x is not None else 0.0
                    if pm or abs(lam - wl) > 1e-8 * max(abs(wl), fac) or abs(ov - 1) > 1e-6:
                        out.append(('als:%s:fullrank:scaled:%s' % (solver, kind), 'operator scaled by 2^%d: guess of maximal ranks does not give the '
                                    'exact extremal eigenpair: lambda %r vs %r, overlap %r (dims %r)' % (e2, lam, wl, ov, dims)))
                        break
                # second use of one operator object: solved once, re-scaled in place by the caller (first core x 3), solved again
                A3 = A.copy()
                evp.als(A3, xfull, repeats=1, solver=solver, sigma=w[-1] + 1.0, **kw)
                A3.cores[0] = 3.0 * A3.cores[0]
                lam, t, it = evp.als(A3, xfull, repeats=1, solver=solver, sigma=(w[-1] + 1.0) * 3, **kw)
                pm = metadata_problem(t)
                x = vec(t) if not pm else None
                ov = abs(x.conj() @ Bd @ vt) / np.sqrt(abs(x.conj() @ Bd @ x)) if x is not None else 0.0
                if pm or abs(lam - 3 * w[-1]) > 1e-8 * 3 * scale or abs(ov - 1) > 1e-6:
                    out.append(('als:%s:fullrank:second-use:%s' % (solver, kind), 'operator object re-scaled in place (first core x 3) between two '
                                'calls: lambda %r vs %r, overlap %r (dims %r)' % (lam, 3 * w[-1], ov, dims)))
        if bot_sep and N > 2:
            lam, t, it = evp.als(A, xfull, repeats=1, solver='eig', sigma=w[0] - 1.0, **kw)
            if consistent(lam, t, 'als:eig') and abs(lam - w[0]) > 1e-8 * scale:
                out.append(('als:eig:fullrank:%s' % kind, 'guess of maximal ranks, target below the spectrum: lambda %r vs %r' % (lam, w[0])))
        # ---- several eigenpairs at once (block version): every returned pair is a consistent Ritz pair.  (Exactness at
        # maximal ranks is not claimed: the trains of several eigenvectors share all cores but one, which the maximal
        # ranks of a single vector do not accommodate.)
        if d >= 2 and N >= 4 and min(a * n * b for a, n, b in zip(cfg['r0'][:-1], dims, cfg['r0'][1:])) >= 2:
            for solver in ('eigh', 'eig'):
                lams, ts, it = evp.als(A, x0, number_ev=2, repeats=2, solver=solver, sigma=w[-1] + 1.0, **kw)
                if len(lams) != 2 or not isinstance(ts, list) or len(ts) != 2:
                    out.append(('als:%s:block:length' % solver, 'number_ev=2 must return 2 eigenvalues and 2 eigentensors'))
                    continue
                for k in range(2):
                    if not consistent(complex(lams[k]), ts[k], 'als:%s:block' % solver):
                        break
        # ---- eigs on micro problems that are large enough for ARPACK
        if d >= 2 and min(a * n * b for a, n, b in zip(cfg['r0'][:-1], dims, cfg['r0'][1:])) >= 6 and B is None and top_sep:
            lam, t, it = evp.als(A, x0, repeats=2, solver='eigs', sigma=w[-1] + 1.0, **kw)
            consistent(complex(lam[0]) if np.ndim(lam) else complex(lam), t, 'als:eigs')
        # ---- deflation == explicitly shifted operator (standard problems)
        if B is None and N >= 4 and top_sep and (w[-2] - w[-3]) > 1e-3 * width and cfg['r0'] == case['maxranks']:
            for ndefl in (1, 2):
                if N < ndefl + 2 or (w[-1 - ndefl] - w[-2 - ndefl]) <= 1e-3 * width:
                    continue       # the eigenvalue that becomes dominant after the deflation must be simple
                P = [tt_of_vector(TT, V[:, -1 - k] if cplx else np.real(V[:, -1 - k]), dims) for k in range(ndefl)]
                s = -(width + 1.0)
                psnap = value_snapshot(P)
                lam1, t1, _ = evp.als(A, xfull, previous=P, shift=s, repeats=2, solver='eigh', sigma=w[-1], **kw)
                why = value_changed(psnap)
                if why:
                    out.append(('operand_changed', 'a deflation tensor was modified by the eigen-solver (%s)' % why))
                A2 = A
                for p in P:
                    A2 = A2 + s * (p @ p.transpose(conjugate=True))
                lam2, t2, _ = evp.als(A2, xfull, repeats=2, solver='eigh', sigma=w[-1], **kw)
                x1, x2 = vec(t1), vec(t2)
                ov = abs(x1.conj() @ x2)
                if abs(lam1 - lam2) > 1e-7 * scale or abs(ov - 1) > 1e-6:
                    out.append(('als:deflation%d:%s' % (ndefl, kind), 'deflating %d tensors with shift %r differs from the explicitly shifted '
                                'operator: lambda %r vs %r, overlap %r (dims %r)' % (ndefl, s, lam1, lam2, ov, dims)))
        # ---- inverse power iteration from a maximal-rank guess
        if cfg['r0'] == case['maxranks'] and N >= 2:
            for j in sorted({0, N - 1}):
                nb = min(abs(w[j] - w[k]) for k in range(N) if k != j)
                if nb < 1e-3 * width:
                    continue
                sigma = w[j] + 0.15 * nb
                lam, t = evp.power_method(A, xfull, operator_gevp=B, repeats=25, sigma=sigma)
                pm = metadata_problem(t)
                if pm:
                    out.append(('power:metadata', pm))
                    continue
                x = vec(t)
                r = rq(x)
                if abs(lam - r) > 1e-8 * scale:
                    out.append(('power:rayleigh:%s' % kind, 'reported eigenvalue %r is not the Rayleigh quotient %r of the returned tensor' % (lam, r)))
                elif abs(lam - w[j]) > 1e-6 * scale:
                    out.append(('power:converge:%s' % kind, 'eigenvalue %r, nearest to sigma=%r is %r' % (lam, sigma, w[j])))
        # ---- a real symmetric operator stored with mixed dtypes: core 1 times i, core 2 times -i (exact; the product is the
        # same operator, its first core is real, the later ones complex) - the shifted operator A - sigma*I built inside the
        # inverse iteration must keep the complex cores
        if cfg['r0'] == case['maxranks'] and N >= 2 and not cplx and len(dims) >= 3 and B is None:
            Amix = A.copy()
            Amix.cores[1] = Amix.cores[1] * 1j
            Amix.cores[2] = Amix.cores[2] * (-1j)
            for j in sorted({0, N - 1}):
                nb = min(abs(w[j] - w[k]) for k in range(N) if k != j)
                if nb < 1e-3 * width:
                    continue
                sigma = w[j] + 0.15 * nb
                lam, t = evp.power_method(Amix, xfull, repeats=25, sigma=sigma)
                pm = metadata_problem(t)
                if pm or abs(lam - w[j]) > 1e-6 * scale:
                    out.append(('power:mixed-dtype', pm or 'operator with a real first core and complex later cores (the same real symmetric '
                                'operator): eigenvalue %r, nearest to sigma=%r is %r (dims %r)' % (lam, sigma, w[j], dims)))
    except Exception as e:
        import traceback
        out.append(('exception:%s:%s' % (type(e).__name__, kind), '%r (dims %r r0 %r) %s' % (e, dims, cfg['r0'], traceback.format_exc()[-300:])))
    why = value_changed(snaps)
    if why:
        out.append(('operand_changed', 'an argument of the eigen-solver was modified (%s)' % why))
    return out


def runs(tier):
    return [dict(name='eig', module='EigSolve', constants=dict(Level=1 if tier == 'quick' else 2),
                 init='EInit', next='ENext', emit='EEmit', invariants=['EigIslandOK'])]


def main(tier):
    return casecheck.run('C08', tier, runs(tier), 'harness.props.c08', 'replay', ASSUME, RULE)
