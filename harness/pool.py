"""Spec -> code conformance for the TT object pool (spec/TTPool.tla).

A *history* is the list of events TLC emitted for one behaviour of the pool machine: the
`New` events carry the exact integer cores of the initial objects, every later event names an
API call and carries the exact expected abstract post-state of the objects it creates ("new")
or may modify ("mod").  `replay` performs the calls on the real implementation and, after
every step, projects EVERY live object back to the abstract state and compares.
"""
import copy
import numpy as np

TOL = 1e-9
ISO_TOL = 1e-10


# ----------------------------------------------------------------------- materialise
def carray(nested):
    """nested lists of [re, im] -> complex ndarray"""
    a = np.array(nested, dtype=float)
    return a[..., 0] + 1j * a[..., 1]


def core_arrays(cores, fortran=False, dedupe=False):
    out = []
    for c in cores:
        a = carray(c)
        if np.all(a.imag == 0):
            a = np.ascontiguousarray(a.real)
        if fortran:
            a = np.asfortranarray(a)       # same values, column-major storage (e.g. arrays loaded from MATLAB files)
        # cores that are equal (shape, dtype and values) are ONE array object placed at several positions, as in
        # TT([x] * d) - fills of kind "rep" produce such trains
        for b in (out if dedupe else ()):
            if b.shape == a.shape and b.dtype == a.dtype and np.array_equal(a, b):
                a = b
                break
        out.append(a)
    return out


def caller_array(a, k=0):
    """data as a careful caller might hold them: read-only (a routine must not write into its inputs) and, for odd k,
    Fortran-ordered"""
    a = np.array(a)
    if k % 2:
        a = np.asfortranarray(a)
    a.setflags(write=False)
    return a


def expected_dense(d):
    """spec dense record -> (rd, cd, r0, rN, flat complex vector)"""
    v = carray(d['v']) if len(d['v']) else np.zeros(0, dtype=complex)
    return list(d['rd']), list(d['cd']), d['r0'], d['rN'], v


# -------------------------------------------------------------------------- project
def contract(cores):
    """Independent contraction of a list of 4-way cores -> array [r0, R, C, rN] (row-major in the
    row multi-index and in the column multi-index).  Does not use TT.full()/matricize()."""
    a = np.asarray(cores[0])
    for c in cores[1:]:
        a = np.einsum('aIJr,rmnb->aImJnb', a, np.asarray(c))
        s = a.shape
        a = a.reshape(s[0], s[1] * s[2], s[3] * s[4], s[5])
    return a


def metadata_problem(t):
    """None if order/row_dims/col_dims/ranks/cores are mutually consistent, else a description."""
    try:
        cores = t.cores
        if not isinstance(cores, list) or len(cores) == 0:
            return 'cores is not a non-empty list'
        if t.order != len(cores):
            return 'order %r != len(cores) %d' % (t.order, len(cores))
        for i, c in enumerate(cores):
            if not isinstance(c, np.ndarray) or c.ndim != 4:
                return 'core %d is not a 4-way array' % i
        rd = [c.shape[1] for c in cores]
        cd = [c.shape[2] for c in cores]
        rk = [c.shape[0] for c in cores] + [cores[-1].shape[3]]
        for i in range(len(cores) - 1):
            if cores[i].shape[3] != cores[i + 1].shape[0]:
                return 'cores %d and %d do not fit: %s %s' % (i, i + 1, cores[i].shape, cores[i + 1].shape)
        if list(t.row_dims) != rd:
            return 'row_dims %r != core shapes %r' % (t.row_dims, rd)
        if list(t.col_dims) != cd:
            return 'col_dims %r != core shapes %r' % (t.col_dims, cd)
        if list(t.ranks) != rk:
            return 'ranks %r != core shapes %r' % (t.ranks, rk)
    except Exception as e:  # attribute missing etc.
        return 'metadata unreadable: %r' % (e,)
    return None


def iso_defect(core, side):
    r0, m, n, r1 = core.shape
    if side == 'left':
        q = core.reshape(r0 * m * n, r1)
        g = q.conj().T @ q
    else:
        q = core.reshape(r0, m * n * r1)
        g = q @ q.conj().T
    return float(np.max(np.abs(g - np.eye(g.shape[0])))) if g.size else 0.0



def value_snapshot(ts):
    """dense value and shape metadata of arguments (a re-gauged but equal argument is not a changed argument)"""
    return [(t, list(t.row_dims), list(t.col_dims), list(t.ranks), contract(t.cores).copy()) for t in ts]


def value_changed(snaps):
    """name of the first clause by which an argument differs from its snapshot, or None"""
    for t, rd, cd, rk, v in snaps:
        if metadata_problem(t):
            return 'metadata: ' + metadata_problem(t)
        if list(t.row_dims) != rd or list(t.col_dims) != cd or list(t.ranks) != rk:
            return 'dims/ranks %r %r %r -> %r %r %r' % (rd, cd, rk, t.row_dims, t.col_dims, t.ranks)
        w = contract(t.cores)
        if w.shape != v.shape or not np.all(np.isfinite(w)) or \
                np.max(np.abs(w - v)) > 1e-9 * max(1.0, float(np.max(np.abs(v)))):
            return 'dense value'
    return None


def same_state(t, x0):
    """the trajectory starts with the initial state: the argument itself or an equal tensor train"""
    if t is x0:
        return True
    if metadata_problem(t) or list(t.row_dims) != list(x0.row_dims) or list(t.col_dims) != list(x0.col_dims):
        return False
    a, b = contract(t.cores).reshape(-1), contract(x0.cores).reshape(-1)
    return bool(np.max(np.abs(a - b)) <= 1e-12 * max(1.0, float(np.max(np.abs(b)))))


def compare_obj(t, exp):
    """Compare a real TT with the expected abstract object; returns None or a message."""
    st = exp.get('st', 'exact')
    if st == 'dead':
        return None
    p = metadata_problem(t)
    if p:
        return 'metadata: ' + p
    rd, cd, r0, rN, v = expected_dense(exp['d'])
    if list(t.row_dims) != rd or list(t.col_dims) != cd:
        return 'dims: got rows %r cols %r, expected %r %r' % (t.row_dims, t.col_dims, rd, cd)
    if st == 'opaque':
        if t.ranks[0] > r0 or t.ranks[-1] > rN:
            return 'boundary ranks: got %r, expected at most %d..%d' % (t.ranks, r0, rN)
    elif t.ranks[0] != r0 or t.ranks[-1] != rN:
        return 'boundary ranks: got %r, expected %d..%d' % (t.ranks, r0, rN)
    got = contract(t.cores).reshape(-1)
    if st == 'opaque':
        if not np.all(np.isfinite(got)):
            return 'value: non-finite entries'
        v = got
    if got.shape != v.shape:
        return 'size: got %d entries, expected %d' % (got.size, v.size)
    if not np.all(np.isfinite(got)):
        return 'value: non-finite entries'
    scale = max(1.0, float(np.max(np.abs(v))) if v.size else 1.0)
    err = float(np.max(np.abs(got - v))) if v.size else 0.0
    if err > TOL * scale:
        k = int(np.argmax(np.abs(got - v)))
        return 'value: max abs error %.3e (entry %d: got %r, expected %r)' % (err, k, got[k], v[k])
    for i, b in enumerate(exp.get('rk', [])):
        if b and b < 999 and t.ranks[i] > b:
            return 'rank: ranks[%d] = %d exceeds the bound %d' % (i, t.ranks[i], b)
    for i in exp.get('lo', []):
        dft = iso_defect(t.cores[i], 'left')
        if dft > ISO_TOL:
            return 'isometry: core %d is not left-orthonormal (defect %.2e)' % (i, dft)
    for i in exp.get('ro', []):
        dft = iso_defect(t.cores[i], 'right')
        if dft > ISO_TOL:
            return 'isometry: core %d is not right-orthonormal (defect %.2e)' % (i, dft)
    return None


def close(x, y, scale=1.0):
    return abs(complex(x) - complex(y)) <= TOL * max(1.0, abs(complex(y)), scale)


# --------------------------------------------------------------------------- replay
class Mismatch(Exception):
    def __init__(self, category, msg):
        super().__init__(msg)
        self.category = category


def pyscalar(s, how):
    z = complex(s[0], s[1])
    if how == 'int':
        return int(s[0])
    if how == 'float':
        return float(s[0])
    return z


def apply_event(tt_mod, objs, ev):
    """Perform the API call of `ev` on the real objects.  Returns (list of new TT objects,
    scalar-checks performed inline raise Mismatch)."""
    TT = tt_mod.TT
    op = ev['op']
    A = objs[ev['a'] - 1] if 'a' in ev else None
    B = objs[ev['b'] - 1] if 'b' in ev else None
    ow = ev.get('ow', False)

    def res_or_self(r):
        if ow:
            if r is not A:
                raise Mismatch('identity', '%s(overwrite=True) did not return self' % op)
            return []
        if any(r is o for o in objs):
            raise Mismatch('identity', '%s returned one of the live operands instead of a new object' % op)
        return [r]

    if op == 'Full':
        rd, cd, r0, rN, v = expected_dense(ev['res'])
        got = A.full()
        if list(got.shape) != rd + cd:
            raise Mismatch('shape', 'full(): shape %r, expected %r' % (got.shape, rd + cd))
        # full() orders the axes rows first then columns: same flat order as the spec value
        if np.max(np.abs(got.reshape(-1) - v)) > TOL * max(1.0, np.max(np.abs(v))):
            raise Mismatch('value', 'full(): wrong entries')
        return []
    if op == 'Matricize':
        rd, cd, r0, rN, v = expected_dense(ev['res'])
        got = A.matricize()
        m, n = int(np.prod(rd)), int(np.prod(cd))
        shape = [m] if n == 1 else [m, n]
        if list(got.shape) != shape:
            raise Mismatch('shape', 'matricize(): shape %r, expected %r' % (got.shape, shape))
        if np.max(np.abs(got.reshape(-1) - v)) > TOL * max(1.0, np.max(np.abs(v))):
            raise Mismatch('value', 'matricize(): wrong entries')
        return []
    if op == 'Elements':
        rd, cd, r0, rN, v = expected_dense(ev['res'])
        R, C = int(np.prod(rd)), int(np.prod(cd))
        for k in range(R * C):
            I = list(np.unravel_index(k // C, rd)) if rd else []
            J = list(np.unravel_index(k % C, cd)) if cd else []
            got = A.element([int(i) for i in I] + [int(j) for j in J])
            if not close(got, v[k]):
                raise Mismatch('value', 'element(%r): got %r, expected %r' % (I + J, got, v[k]))
        return []
    if op == 'IsOperator':
        got = A.isoperator()
        if bool(got) != bool(ev['res']):
            raise Mismatch('value', 'isoperator(): got %r, expected %r' % (got, ev['res']))
        return []
    if op == 'Norm2':
        got = A.norm(p=2)
        if not close(got * got, ev['ressq'], scale=ev['ressq']) or got < 0:
            raise Mismatch('value', 'norm(2): got %r, expected sqrt(%r)' % (got, ev['ressq']))
        return []
    if op == 'Norm1':
        got = A.norm(p=1)
        if not close(got, ev['res']):
            raise Mismatch('value', 'norm(1): got %r, expected %r' % (got, ev['res']))
        return []
    if op == 'Residual':
        X = objs[ev['x'] - 1]
        got = tt_mod.residual_error(A, X, B)
        if not close(got * got, ev['ressq'], scale=ev['ressq']):
            raise Mismatch('value', 'residual_error: got %r, expected sqrt(%r)' % (got, ev['ressq']))
        return []
    if op == 'Add':
        return res_or_self(A + B)
    if op == 'Sub':
        return res_or_self(A - B)
    if op == 'SMul':
        s = pyscalar(ev['s'], ev['how'])
        return res_or_self(s * A if ev['side'] == 'left' else A * s)
    if op == 'MatMul':
        r = (A @ B) if ev['via'] == 'matmul' else A.dot(B)
        if 'scalar' in ev:
            if isinstance(r, TT):
                raise Mismatch('type', 'product with all dims 1 must be a scalar')
            if not close(r, complex(*ev['scalar'])):
                raise Mismatch('value', 'scalar product: got %r, expected %r' % (r, ev['scalar']))
            return []
        return res_or_self(r)
    if op == 'Transpose':
        kw = {} if ev['all'] else {'cores': [_np_int(c, ev) for c in sorted(ev['cores'])]}
        if kw:
            A.copy().transpose(conjugate=ev['conj'], **kw)        # the caller's list object is used twice (see _twice)
        return res_or_self(A.transpose(conjugate=ev['conj'], overwrite=ow, **kw))
    if op == 'Conj':
        return res_or_self(A.conj(overwrite=ow))
    if op == 'Copy':
        return res_or_self(A.copy())
    if op == 'Zeros':
        return [tt_mod.zeros(list(ev['rd']), list(ev['cd']), ranks=_ranks_arg(ev))]
    if op == 'Ones':
        return [tt_mod.ones(list(ev['rd']), list(ev['cd']), ranks=_ranks_arg(ev))]
    if op == 'Eye':
        return [tt_mod.eye(list(ev['dims']))]
    if op == 'Unit':
        return [tt_mod.unit(list(ev['dims']), list(ev['inds']))]
    if op == 'Uniform':
        t = tt_mod.uniform(list(ev['dims']), ranks=_ranks_arg(ev), norm=ev['norm'])
        p = metadata_problem(t)
        if p:
            raise Mismatch('metadata', 'uniform: ' + p)
        if list(t.row_dims) != list(ev['dims']) or any(c != 1 for c in t.col_dims):
            raise Mismatch('shape', 'uniform: wrong dims')
        v = contract(t.cores).reshape(-1)
        if v.size != ev['count'] or np.max(np.abs(v - v[0])) > TOL * abs(v[0]) or v[0].real <= 0:
            raise Mismatch('value', 'uniform: entries are not all equal and positive')
        if not close(float(np.sum(np.abs(v) ** 2)), ev['normsq'], scale=ev['normsq']):
            raise Mismatch('value', 'uniform: squared norm %r, expected %r' % (np.sum(np.abs(v) ** 2), ev['normsq']))
        return []
    if op == 'Tensordot':
        return res_or_self(A.tensordot(B, ev['k'], mode=ev['mode'], overwrite=ow))
    if op == 'RankTensordot':
        M = carray(ev['matrix']).real.copy()
        return res_or_self(A.rank_tensordot(M, mode=ev['mode'], overwrite=ow))
    if op == 'Concatenate':
        other = B if ev['form'] == 'tt' else [c.copy() for c in B.cores]
        return res_or_self(A.concatenate(other, overwrite=ow))
    if op == 'RankTranspose':
        return res_or_self(A.rank_transpose(overwrite=ow))
    if op == 'Diag':
        lst = [_np_int(c, ev) for c in sorted(ev['list'])]
        A.copy().diag(lst)                                          # list argument used twice
        # the same selection written with negative core indices (counted from the end) and as a tuple
        alt = A.diag(tuple(int(c) - A.order if k % 2 == 0 else int(c) for k, c in enumerate(sorted(ev['list']))))
        res = A.diag(lst)
        if not metadata_problem(res):
            pm = metadata_problem(alt)
            if pm or list(alt.col_dims) != list(res.col_dims) or np.max(np.abs(contract(alt.cores) - contract(res.cores))) > 0:
                raise Mismatch('value', 'diag: the selection given with negative indices / as a tuple differs from the list form (%s)' % (
                    pm or 'col_dims %r vs %r' % (alt.col_dims, res.col_dims)))
        return res_or_self(res)
    if op == 'Squeeze':
        return res_or_self(A.squeeze())
    if op in ('OrthoLeft', 'OrthoRight', 'Ortho') and ev.get('dflt', True):
        _nonbinding_caps_check(A, op)
    if op == 'OrthoLeft':
        r = A.ortho_left() if ev['dflt'] else A.ortho_left(start_index=ev['s'], end_index=ev['e'])
        if r is not A:
            raise Mismatch('identity', 'ortho_left did not return self')
        return []
    if op == 'OrthoRight':
        r = A.ortho_right() if ev['dflt'] else A.ortho_right(start_index=ev['s'], end_index=ev['e'])
        if r is not A:
            raise Mismatch('identity', 'ortho_right did not return self')
        return []
    if op == 'Ortho':
        r = A.ortho()
        if r is not A:
            raise Mismatch('identity', 'ortho did not return self')
        return []
    if op == 'OrthoTrunc':
        r = _np_int(ev['maxrank'], ev)
        if ev['which'] == 'left':
            res = A.ortho_left(max_rank=r)
        elif ev['which'] == 'right':
            res = A.ortho_right(max_rank=r)
        else:
            res = A.ortho(max_rank=r)
        if res is not A:
            raise Mismatch('identity', 'ortho*(max_rank) did not return self')
        if ev['which'] == 'both' and ev.get('val') and len(ev['val'].get('v', [])):
            check_trunc_error(ev, A, bounds_from_event=False)        # quasi-optimality of ortho(max_rank) on a general train
        return []
    if op == 'IslOrthoTrunc':
        caps = [np.inf if c >= 99 else _np_int(c, ev) for c in ev['caps']]        # INFCAP in the spec
        if not ev['asInt']:
            # the caller's list is used for another train first (a rank-1 copy): the caps requested for A are what
            # the caller wrote, whatever an earlier call did with the list
            warm = A.copy()
            warm.ortho(max_rank=1)
            warm.ortho(max_rank=caps)
        res = A.ortho(max_rank=caps[1]) if ev['asInt'] else A.ortho(max_rank=caps)
        if res is not A:
            raise Mismatch('identity', 'ortho(max_rank) did not return self')
        check_trunc_error(ev, A, bounds_from_event=True)
        return []
    if op == 'FromArray':
        rd, cd, r0, rN, v = expected_dense(ev['val'])
        x = v.reshape(rd + cd)
        if np.all(x.imag == 0):
            x = x.real.copy()
        kw = {}
        if ev['thrp']:
            kw['threshold'] = ev['thrp'] / ev['thrq']
        if ev['maxrank']:
            kw['max_rank'] = _np_int(ev['maxrank'], ev)
        t = TT(x.copy(), **kw)
        check_trunc_error(ev, t, bounds_from_event=False)
        if ev['thrp'] and not metadata_problem(t):
            # a relative threshold does not see the scale of the tensor: the same data times 2^-44 give the same ranks
            t2 = TT(x * 2.0 ** -44, **kw)
            if metadata_problem(t2) or list(t2.ranks) != list(t.ranks):
                raise Mismatch('rank', 'TT(array, threshold=%g): ranks %r for the tensor, %r for the tensor scaled by 2^-44' % (
                    kw['threshold'], t.ranks, getattr(t2, 'ranks', None)))
        if not metadata_problem(t):
            # the decomposition is homogeneous: the same data in other units (x 2^-80 and x 2^80, exact in floating point;
            # every entry then lies below / above any absolute round-off constant) give the same ranks and the scaled tensor
            ref = contract(t.cores)
            for e_ in (-80, 80):
                t3 = TT(x * 2.0 ** e_, **kw)
                if metadata_problem(t3) or list(t3.ranks) != list(t.ranks):
                    raise Mismatch('rank', 'TT(array%s): ranks %r for the tensor, %r for the tensor scaled by 2^%d' % (
                        ''.join(', %s=%r' % kv for kv in kw.items()), t.ranks, getattr(t3, 'ranks', None), e_))
                got3 = contract(t3.cores) * 2.0 ** -e_
                if got3.shape != ref.shape or np.max(np.abs(got3 - ref)) > 1e-9 * max(1e-300, float(np.max(np.abs(ref)))):
                    raise Mismatch('value', 'TT(array%s) of the tensor scaled by 2^%d is not the scaled decomposition' % (
                        ''.join(', %s=%r' % kv for kv in kw.items()), e_))
        return [t]
    if op in ('Svd', 'Pinv'):
        return svd_pinv_event(tt_mod, A, ev, objs)
    if op == 'MatSvd':
        return matsvd_event(ev)
    if op == 'Reject':
        return reject_event(tt_mod, A, B, ev)
    if op == 'TT2QTT':
        rds, cds = [list(x) for x in ev['rds']], [list(x) for x in ev['cds']]
        A.copy().tt2qtt(rds, cds)                                   # list arguments used twice: a call must not consume them
        if not metadata_problem(A) and A.order >= 1:
            # splitting is exact and homogeneous: the same train in other units (first core x 2^-80 / 2^80, exact in floating
            # point) gives the scaled tensor; a train whose scale is spread unevenly over the cores (x 2^-60, .., x 2^60) too
            ref = contract(A.cores)
            for label, fs in (('first core x 2^-80', [-80] + [0] * (A.order - 1)), ('first core x 2^80', [80] + [0] * (A.order - 1)),
                              ('cores x 2^-60 .. x 2^60', ([-60] + [0] * (A.order - 2) + [60]) if A.order >= 2 else [0])):
                B = A.copy()
                for k_, e_ in enumerate(fs):
                    B.cores[k_] = B.cores[k_] * 2.0 ** e_
                q_ = B.tt2qtt(rds, cds)
                if metadata_problem(q_):
                    raise Mismatch('metadata', 'tt2qtt of a re-scaled train (%s): %s' % (label, metadata_problem(q_)))
                got_ = contract(q_.cores).reshape(-1) * 2.0 ** -sum(fs)
                if got_.shape != ref.reshape(-1).shape or np.max(np.abs(got_ - ref.reshape(-1))) > 1e-9 * max(1e-300, float(np.max(np.abs(ref)))):
                    raise Mismatch('value', 'tt2qtt of the same train in other units (%s) does not give the scaled tensor '
                                            '(relative error %.3e)' % (label, np.max(np.abs(got_ - ref.reshape(-1))) / max(1e-300, float(np.max(np.abs(ref))))))
        return res_or_self(A.tt2qtt(rds, cds))
    if op == 'BuildCore':
        def blk(b, vec):
            if b['z']:
                return 0
            m = carray(b['m'])
            if np.all(m.imag == 0):
                m = m.real.copy()
            return m
        lst = [[blk(b, False) for b in row] for row in ev['list']]
        if ev['form'] == 'vector':
            lst = [row[0] for row in lst]
        core = tt_mod.build_core(lst, iscomplex=ev['iscomplex']) if ev['iscomplex'] else \
            (tt_mod.build_core(lst) if len(ev['list']) % 2 else tt_mod.build_core(lst, iscomplex=False))
        if not isinstance(core, np.ndarray) or core.ndim != 4:
            raise Mismatch('type', 'build_core did not return a 4-way array')
        return [TT([core])]
    if op == 'QTT2TT':
        nums = [_np_int(c, ev) for c in ev['nums']]
        A.copy().qtt2tt(nums)                                       # list argument used twice
        return res_or_self(A.qtt2tt(nums))
    raise KeyError(op)


def matsvd_event(ev):
    """utils.truncated_svd on an unfolding of an island: kept singular values, isometries, reconstruction"""
    import scikit_tt.utils as utl
    x, rd, cd = interleaved(ev['val'])
    k0, rdk, cdk = interleaved(ev['kept'])
    rows = int(np.prod(rd[:ev['index']]))
    M = np.ascontiguousarray(x.reshape(rows, -1))
    want = k0.reshape(rows, -1)
    if np.all(M.imag == 0):
        M, want = M.real.copy(), want.real
    svsq = np.array(ev['svsq'], dtype=float)
    r, rel = ev['maxrank'], ev['rel']
    thr = (ev['thrp'] / ev['thrq']) if rel else float(ev['absT'])
    variants = [('int', r if r else np.inf), ('numpy-int', np.int64(r) if r else np.inf)]
    for label, cap in variants:
        for order in ('C', 'F'):
            Min = np.array(M, order=order)
            u, sv, v = utl.truncated_svd(Min, threshold=thr, max_rank=cap, rel_truncation=rel)
            tag = 'truncated_svd(threshold=%g, max_rank=%r as %s, rel_truncation=%r, %s-ordered matrix %dx%d)' % (
                thr, cap, label, rel, order, M.shape[0], M.shape[1])
            sq = svsq
            if thr == 0:
                # no threshold: the SVD returns min(rows, cols) singular values (zeros beyond the planted ones), then the cap
                kk = min(M.shape[0], M.shape[1], r if r else 10 ** 9)
                sq = np.concatenate([svsq, np.zeros(max(0, kk - len(svsq)))])[:kk]
            k = len(sq)
            if np.ndim(sv) != 1 or len(sv) != k or u.shape != (M.shape[0], k) or v.shape != (k, M.shape[1]):
                raise Mismatch('rank', '%s: shapes u %r s %r v %r, %d singular values are to be kept' % (
                    tag, np.shape(u), np.shape(sv), np.shape(v), k))
            if k == 0:
                continue
            if np.max(np.abs(np.asarray(sv) ** 2 - sq)) > 1e-8 * max(1.0, float(sq[0])):
                raise Mismatch('value', '%s: singular values^2 %r, exact %r' % (tag, list(np.asarray(sv) ** 2), list(sq)))
            if np.max(np.abs(u.conj().T @ u - np.eye(k))) > 1e-9 or np.max(np.abs(v @ v.conj().T - np.eye(k))) > 1e-9:
                raise Mismatch('isometry', '%s: factors are not isometries' % tag)
            err = float(np.max(np.abs((u * sv) @ v - want)))
            if err > 1e-8 * max(1.0, float(np.max(np.abs(M)))):
                raise Mismatch('value', '%s: u diag(s) v differs from the sum of the kept terms (max abs error %.3e)' % (tag, err))
    return []


def interleaved(val):
    """dense value -> array with axes (m1, n1, m2, n2, ...), the layout TT-SVD unfolds"""
    rd, cd, r0, rN, v = expected_dense(val)
    d = len(rd)
    x = v.reshape(rd + cd)
    return x.transpose([k // 2 + (d if k % 2 else 0) for k in range(2 * d)]), rd, cd


def check_trunc_error(ev, t, bounds_from_event):
    """C04: Frobenius error of a truncated result against the exact tensor carried by the event."""
    pm = metadata_problem(t)
    if pm:
        raise Mismatch('metadata', pm)
    y, rd, cd = interleaved(ev['val'])
    d = len(rd)
    got = contract(t.cores).reshape(rd + cd).transpose([k // 2 + (d if k % 2 else 0) for k in range(2 * d)])
    nrm2 = float(np.sum(np.abs(y) ** 2))
    err2 = float(np.sum(np.abs(got - y) ** 2))
    tiny = 1e-18 * max(nrm2, 1.0)
    if ev.get('errsq', -1) >= 0 and 'island' in ev and not ev['island']:
        pass
    elif ev.get('errsq', -1) >= 0:
        # island: the error is known exactly (also with ties among the singular values)
        if abs(err2 - ev['errsq']) > 1e-8 * max(1.0, ev['errsq'], nrm2 * 1e-6):
            raise Mismatch('error', 'truncation error^2 %.6g differs from the exact value %d' % (err2, ev['errsq']))
    if bounds_from_event:
        if err2 > ev['boundsq'] * (1 + 1e-8) + tiny:
            raise Mismatch('error', 'error^2 %.6g exceeds the quasi-optimality bound %d' % (err2, ev['boundsq']))
        return
    r, p, q = ev['maxrank'], ev['thrp'], ev['thrq']
    if not r and not p:
        return
    sizes = [rd[k] * cd[k] for k in range(d)]
    # singular values of the unfoldings of the exact tensor (numeric evaluator, trusted base)
    tails = 0.0
    for b in range(1, d):
        s = np.linalg.svd(y.reshape(int(np.prod(sizes[:b])), -1), compute_uv=False)
        if r:
            tails += float(np.sum(s[r:] ** 2))
    if r and not p:
        if err2 > tails * (1 + 1e-8) + tiny:
            raise Mismatch('error', 'error^2 %.6g exceeds the TT-SVD quasi-optimality bound %.6g (max_rank=%d)' % (err2, tails, r))
    if p and not r:
        theta = p / q
        disc = 0
        for b in range(1, d):
            rows = t.ranks[b - 1] * sizes[b - 1]
            cols = int(np.prod(sizes[b:]))
            disc += max(0, min(rows, cols) - t.ranks[b])
        if err2 > (theta ** 2) * nrm2 * disc * (1 + 1e-8) + tiny:
            raise Mismatch('error', 'error^2 %.6g exceeds (threshold*norm)^2*discarded = %.6g' % (err2, theta ** 2 * nrm2 * disc))


class RejectNote(Exception):
    """exception type of a documented error path differs (reported as a note, not as a violation)"""


def reject_event(tt_mod, A, B, ev):
    TT = tt_mod.TT
    what = ev['what']
    calls = {
        'add_dims': lambda: A + B,
        'add_type': lambda: A + 3.0,
        'mul_type': lambda: A * 'x',
        'matmul_dims': lambda: A @ B,
        'matmul_type': lambda: A @ np.eye(2),
        'element_len': lambda: A.element([0] * (2 * A.order + 1)),
        'element_range': lambda: A.element([A.row_dims[0]] + [0] * (2 * A.order - 1)),
        'element_type': lambda: A.element(tuple([0] * (2 * A.order))),
        'tensordot_axes': lambda: A.tensordot(B, 1),
        'tensordot_mode': lambda: A.tensordot(B, 1, mode='middle-middle'),
        'tensordot_num': lambda: A.tensordot(B, max(A.order, B.order) + 1),
        'norm_p': lambda: A.norm(p=3),
        'ortho_threshold': lambda: A.ortho_left(threshold=-1.0),
        'ortho_maxrank': lambda: A.ortho_right(max_rank=0),
        'ortho_index_type': lambda: A.ortho_left(start_index='0'),
        'full_open': lambda: A.full(),
        'concat_ranks': lambda: A.concatenate(B),
        'ranktd_ndim': lambda: A.rank_tensordot(np.ones(3)),
        'ranktd_dims': lambda: A.rank_tensordot(np.ones((A.ranks[-1] + 1, 2))),
        'ranktd_mode': lambda: A.rank_tensordot(np.ones((A.ranks[-1], 2)), mode='middle'),
        'init_type': lambda: TT(3),
        'init_ndim': lambda: TT([np.ones((1, 2, 1))]),
        'init_ranks': lambda: TT([np.ones((1, 2, 1, 2)), np.ones((3, 2, 1, 1))]),
        'init_odd': lambda: TT(np.ones((2, 2, 2))),
    }
    try:
        calls[what]()
    except Exception as e:
        if type(e).__name__ != ev['exc']:
            raise Mismatch('reject_note', 'inadmissible call %s raised %s, documented %s' % (what, type(e).__name__, ev['exc']))
        return []
    raise Mismatch('reject_note', 'inadmissible call %s did not raise (documented %s)' % (what, ev['exc']))


def unfold(val, index):
    rd, cd, r0, rN, v = expected_dense(val)
    m = int(np.prod(rd[:index]))
    return v.reshape(m, -1)


def svd_pinv_event(tt_mod, A, ev, objs):
    """C05: global SVD / pseudoinverse of a vector-type train at a split index."""
    TT = tt_mod.TT
    index, ow = ev['index'], ev.get('ow', False)
    M = unfold(ev['val'], index)
    scale = max(1.0, float(np.max(np.abs(M))))
    if ev['op'] == 'Pinv':
        thr = ev['thrp'] / ev['thrq'] if ev.get('thrp') else 10.0 ** (-ev['threxp'])
        p = A.pinv(index, threshold=thr, overwrite=ow)
        if not isinstance(p, TT) or any(p is o for o in objs):
            raise Mismatch('identity', 'pinv must return a new TT')
        pm = metadata_problem(p)
        if pm:
            raise Mismatch('metadata', 'pinv: ' + pm)
        got = contract(p.cores).reshape(-1)
        if got.size != M.size:
            raise Mismatch('shape', 'pinv: wrong number of entries')
        got = got.reshape(M.shape)
        exp = np.linalg.pinv(M, rcond=thr).conj().T
        if np.max(np.abs(got - exp)) > 1e-8 * max(1e-300, float(np.max(np.abs(exp)))):
            raise Mismatch('value', 'pinv: differs from the conjugate transpose of the Moore-Penrose pseudoinverse '
                                    'of the unfolding (max abs error %.2e, scale %.2e)' % (
                                        np.max(np.abs(got - exp)), np.max(np.abs(exp))))
        _scaled_repr_check(A, ow, lambda B: contract(B.pinv(index, threshold=thr).cores).reshape(M.shape), got, 'pinv')
        _units_check(A, ow, lambda B: contract(B.pinv(index, threshold=thr).cores).reshape(M.shape), got, 'pinv', -1)
        return [p]
    opt = ev.get('opt') or dict(r=0, p=0, q=1, ol=True, orr=True)
    kw = {}
    if opt['p']:
        kw['threshold'] = opt['p'] / opt['q']
    if opt['r']:
        kw['max_rank'] = opt['r']
    if not opt['ol']:
        kw['ortho_l'] = False
    if not opt['orr']:
        kw['ortho_r'] = False
    u, s, v = A.svd(index, overwrite=ow, **kw)
    for name, f in (('u', u), ('v', v)):
        if not isinstance(f, TT):
            raise Mismatch('type', 'svd: %s is not a TT' % name)
        pm = metadata_problem(f)
        if pm:
            raise Mismatch('metadata', 'svd: %s: %s' % (name, pm))
    s = np.asarray(s)
    if s.ndim != 1 or u.ranks[-1] != len(s) or v.ranks[0] != len(s):
        raise Mismatch('metadata', 'svd: ranks of u, s, v do not fit: %r %d %r' % (u.ranks, len(s), v.ranks))
    if opt['r'] and len(s) > opt['r']:
        raise Mismatch('rank', 'svd: %d singular values returned, max_rank=%d' % (len(s), opt['r']))
    if np.any(s < -1e-12) or np.any(np.diff(s) > 1e-9 * scale):
        raise Mismatch('value', 'svd: singular values are not non-negative and non-increasing: %r' % (s,))
    U = contract(u.cores).reshape(-1, len(s))
    V = contract(v.cores).reshape(len(s), -1)
    if U.shape[0] != M.shape[0] or V.shape[1] != M.shape[1]:
        raise Mismatch('shape', 'svd: factors have the wrong dimensions')
    cut = ev.get('cut', False)
    if not cut and np.max(np.abs(U @ np.diag(s) @ V - M)) > 1e-9 * scale:
        raise Mismatch('value', 'svd: u diag(s) v differs from the tensor (max abs error %.2e)' %
                       np.max(np.abs(U @ np.diag(s) @ V - M)))
    sv = np.linalg.svd(M, compute_uv=False)      # singular values of the exact unfolding (numeric evaluator)
    k = min(len(s), len(sv))
    if not cut and (np.max(np.abs(s[:k] - sv[:k])) > 1e-9 * scale or np.any(sv[k:] > 1e-9 * scale)
                    or np.any(s[k:] > 1e-9 * scale)):
        raise Mismatch('value', 'svd: singular values %r differ from those of the unfolding %r' % (s, sv))
    if ev.get('island') and not cut:
        want = np.sqrt(np.array(ev['svsq'], dtype=float))     # planted spectrum, exact squares from the spec
        nz = s[s > 1e-9 * scale]
        if len(nz) != len(want) or np.max(np.abs(nz - want)) > 1e-9 * scale:
            raise Mismatch('value', 'svd: singular values %r differ from the planted spectrum %r' % (s, want))
    if np.max(np.abs(U.conj().T @ U - np.eye(len(s)))) > 1e-9:
        raise Mismatch('isometry', 'svd: u does not have orthonormal columns')
    if np.max(np.abs(V @ V.conj().T - np.eye(len(s)))) > 1e-9:
        raise Mismatch('isometry', 'svd: v does not have orthonormal rows')
    if opt['p'] and opt['ol'] and opt['orr']:
        _scaled_repr_check(A, ow, lambda B: np.asarray(B.svd(index, **kw)[1]), s, 'svd (singular values)')
    if opt['ol'] and opt['orr'] and not cut:
        _units_check(A, ow, lambda B: np.asarray(B.svd(index, **kw)[1]), s, 'svd (singular values)', 1)
    return [u, v]


def _np_int(x, ev):
    """integer arguments are handed over as Python ints or (for every second event, chosen by its content) as numpy.int64"""
    k = sum(len(str(v)) for v in ev.values() if not isinstance(v, (list, dict))) + int(x)
    return np.int64(x) if k % 2 else int(x)


def _nonbinding_caps_check(A, op):
    """C03 with a per-bond max_rank list that does not bind (100 everywhere): still "without truncation", and the list is
    the caller's: it is first used for a rank-1 copy of the train, then for the train itself (on copies; A is untouched)"""
    if metadata_problem(A) or A.order < 2 or A.ranks[0] != 1 or A.ranks[-1] != 1:
        return
    caps = [1] + [100] * (A.order - 1) + [1]
    f = {'OrthoLeft': 'ortho_left', 'OrthoRight': 'ortho_right', 'Ortho': 'ortho'}[op]
    w = A.copy()
    w.ortho(max_rank=1)
    getattr(w, f)(max_rank=caps)
    B = A.copy()
    before = contract(B.cores)
    getattr(B, f)(max_rank=caps)
    pm = metadata_problem(B)
    if pm:
        raise Mismatch('metadata', '%s(max_rank=[1, 100, .., 1]): %s' % (f, pm))
    after = contract(B.cores)
    if after.shape != before.shape or np.max(np.abs(after - before)) > 1e-9 * max(1.0, float(np.max(np.abs(before)))):
        raise Mismatch('value', '%s(max_rank=[1, 100, .., 1]) with a list that was used for another train before changed the '
                                'tensor although no cap binds (max abs error %.2e)' % (f, np.max(np.abs(after - before))))


def _units_check(A, ow, fn, ref, what, power):
    """homogeneity: the same tensor in other units (first core x 2^e, exact in floating point; e = -80 puts every entry of
    that core below any absolute round-off constant, e = 60 makes inverse singular values tiny) gives the result scaled by
    2^(power*e)"""
    if ow or metadata_problem(A):
        return
    ref = np.asarray(ref)
    for e_ in (-80, 60):
        B = A.copy()
        B.cores[0] = B.cores[0] * 2.0 ** e_
        got = np.asarray(fn(B)) * 2.0 ** (-power * e_)
        if got.shape != ref.shape or np.max(np.abs(got - ref)) > 1e-7 * max(1e-300, float(np.max(np.abs(ref)))):
            raise Mismatch('value', '%s: the same tensor in other units (first core x 2^%d) does not give the correspondingly scaled '
                                    'result (relative deviation %.3e)' % (what, e_, (np.max(np.abs(got - ref)) / max(1e-300, float(np.max(np.abs(ref)))))
                                                                           if got.shape == ref.shape else np.inf))


def _scaled_repr_check(A, ow, fn, ref, what):
    """relative cut-offs must not depend on how the scale of the tensor is distributed over the cores: the same train with
    the first core multiplied by 2^44 and the last one by 2^-44 (exact in floating point) must give the same result"""
    if ow or A.order < 2 or metadata_problem(A):
        return
    B = A.copy()
    B.cores[0] = B.cores[0] * 2.0 ** 44
    B.cores[-1] = B.cores[-1] * 2.0 ** -44
    got = fn(B)
    ref = np.asarray(ref)
    if got.shape != ref.shape or np.max(np.abs(got - ref)) > 1e-7 * max(1e-300, float(np.max(np.abs(ref)))):
        raise Mismatch('value', '%s: a re-scaled representation of the same tensor (first core x 2^44, last core x 2^-44) gives a '
                                'different result' % what)


def _ranks_arg(ev):
    rk = list(ev['ranks'])
    inner = rk[1:-1]
    # the API accepts an int (all inner ranks) or the full list; use both forms
    if inner and len(set(inner)) == 1 and (len(rk) + inner[0]) % 2 == 0:
        return inner[0]
    return rk


def replay(tt_mod, hist, on_violation, fortran=False, dedupe=False):
    """Replay one history.  on_violation(event_index, category, message) is called for the first
    mismatch; returns the number of real API calls performed."""
    TT = tt_mod.TT
    objs = []      # real objects
    exps = []      # expected abstract objects
    calls = 0
    for idx, ev in enumerate(hist):
        op = ev['op']
        if op == 'New':
            objs.append(TT(core_arrays(ev['cores'], fortran=fortran, dedupe=dedupe)))
            exps.append(ev['new'][0])
            continue
        touched = ev.get('touched')
        snap = None
        if dedupe and (touched is not None or any(m[0] == ev.get('a') for m in ev.get('mod', []))) and \
                len({id(c) for c in objs[ev['a'] - 1].cores}) < len(objs[ev['a'] - 1].cores) and hist[ev['a'] - 1]['op'] == 'New' \
                if 'a' in ev and ev['a'] - 1 < len(hist) else False:
            # in-place call on a train the *caller* built from one array object at several positions: outside the domain (a
            # train owns its core arrays).  Copies and results made by the library own theirs: calls on them are replayed.
            return calls
        if touched is not None:
            snap = [c.copy() for c in objs[ev['a'] - 1].cores]
        try:
            new = apply_event(tt_mod, objs, ev)
            calls += 1
        except Mismatch as m:
            on_violation(idx, m.category, str(m))
            return calls
        except Exception as e:
            on_violation(idx, 'exception:' + type(e).__name__, '%s raised %r' % (op, e))
            return calls
        if len(new) != len(ev['new']):
            on_violation(idx, 'type', '%s returned %d objects, expected %d' % (op, len(new), len(ev['new'])))
            return calls
        for m in ev['mod']:
            exps[m[0] - 1] = m[1]
        for t, e in zip(new, ev['new']):
            if not isinstance(t, TT):
                on_violation(idx, 'type', '%s returned %r instead of a TT' % (op, type(t)))
                return calls
            objs.append(t)
            exps.append(e)
        # every live object must now equal its expected abstract state
        nnew = len(ev['new'])
        for k, (t, e) in enumerate(zip(objs, exps)):
            msg = compare_obj(t, e)
            if msg:
                is_target = k >= len(objs) - nnew or any(m[0] - 1 == k for m in ev['mod'])
                cat = msg.split(':')[0] if is_target else 'operand_changed'
                who = 'result' if is_target else 'object %d (not a target of the call)' % (k + 1)
                on_violation(idx, cat, '%s: %s: %s' % (op, who, msg))
                return calls
        if snap is not None:
            a = objs[ev['a'] - 1]
            for i, c in enumerate(snap):
                if i not in touched and i < len(a.cores):
                    if a.cores[i].shape != c.shape or not np.array_equal(a.cores[i], c):
                        on_violation(idx, 'untouched_core', '%s changed core %d outside the requested bonds' % (op, i))
                        return calls
    return calls
