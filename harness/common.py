"""Shared plumbing: repository import, violations, known findings, evidence files."""
import hashlib
import json
import os
import sys
import time

VERIF = os.path.dirname(os.path.dirname(os.path.abspath(__file__)))
REPO = os.environ.get('VERIF_REPO', '/repo')
EVIDENCE_DIR = os.path.join(VERIF, 'evidence')
REPLAY_DIR = os.path.join(VERIF, 'replays')
FINDINGS_FILE = os.path.join(VERIF, 'KNOWN_FINDINGS.json')


def import_repo():
    """Make `import scikit_tt` resolve to the current working tree of the repository."""
    if sys.path[0] != REPO:
        sys.path.insert(0, REPO)
    import warnings
    warnings.filterwarnings('ignore')
    os.environ.setdefault('SCIKIT_TT_VERIF', '1')
    import types
    # matplotlib is not installed; scikit_tt.quantum_computation imports it at module level
    for name in ('matplotlib', 'matplotlib.pyplot'):
        if name not in sys.modules:
            try:
                __import__(name)
            except Exception:
                sys.modules[name] = types.ModuleType(name)
    import scikit_tt
    assert os.path.abspath(scikit_tt.__file__).startswith(os.path.abspath(REPO)), scikit_tt.__file__
    return scikit_tt


def seed():
    return int(os.environ.get('VERIF_SEED', '0') or 0)


def load_findings():
    if not os.path.exists(FINDINGS_FILE):
        return []
    with open(FINDINGS_FILE) as f:
        return json.load(f).get('findings', [])


class Reporter:
    """Collects violations of one property; matches them against KNOWN_FINDINGS.json."""

    def __init__(self, pid, tier):
        self.pid = pid
        self.tier = tier
        self.t0 = time.time()
        self.violations = []       # unlisted violations
        self.known = {}            # finding id -> count
        self.notes = []
        self.findings = [f for f in load_findings() if f.get('property') == pid and f.get('status') == 'open']

    def violation(self, signature, message, replay):
        """signature: short stable string describing *what* fails (call site + input class)."""
        for f in self.findings:
            if signature == f.get('signature') or signature in f.get('signatures', []):
                self.known[f['id']] = self.known.get(f['id'], 0) + 1
                return False
        n = sum(1 for v in self.violations if v['signature'] == signature)
        path = None
        if n < 2 and not os.environ.get('VERIF_NO_EVIDENCE'):
            os.makedirs(REPLAY_DIR, exist_ok=True)
            h = hashlib.sha1(json.dumps(replay, sort_keys=True, default=str).encode()).hexdigest()[:12]
            path = os.path.join(REPLAY_DIR, '%s-%s.json' % (self.pid, h))
            with open(path, 'w') as f:
                json.dump(dict(property=self.pid, signature=signature, message=message, replay=replay), f,
                          default=str)
        self.violations.append(dict(signature=signature, message=message, replay=path))
        return True

    def note(self, msg):
        if msg not in self.notes and len(self.notes) < 40:
            self.notes.append(msg)

    def finish(self, coverage, assumptions, level='model_checking'):
        wall = time.time() - self.t0
        os.makedirs(EVIDENCE_DIR, exist_ok=True)
        coverage = dict(coverage)
        coverage.setdefault('notes', self.notes)
        coverage['known_findings_reproduced'] = self.known
        ev = dict(property_id=self.pid, tier=self.tier, seed=seed(), level=level, coverage=coverage,
                  assumptions=assumptions, wall_s=round(wall, 2), violations=len(self.violations))
        if not os.environ.get('VERIF_NO_EVIDENCE'):      # set by tools/mutate.py (runs against scratch mutants)
            with open(os.path.join(EVIDENCE_DIR, '%s.json' % self.pid), 'w') as f:
                json.dump(ev, f, indent=1, default=str)
        for f in self.findings:
            if f['id'] in self.known:
                print('KNOWN-FINDING: property=%s %s (%d cases)' % (self.pid, f['what'], self.known[f['id']]))
        shown = {}
        for v in self.violations:
            shown.setdefault(v['signature'], [0, v])[0] += 1
        for sig, (cnt, v) in list(shown.items())[:25]:
            print('VIOLATION property=%s replay=%s' % (self.pid, v['replay']))
            print('  [%s x%d] %s' % (sig, cnt, v['message'][:300]))
        print('%s %s: %d violations, %.1fs; %s' % (
            self.pid, self.tier, len(self.violations), wall,
            ', '.join('%s=%s' % (k, coverage[k]) for k in ('states', 'transitions', 'traces_validated_against_impl')
                      if k in coverage)))
        return 1 if self.violations else 0


class CallTimeout(Exception):
    pass


class watchdog:
    """Context manager: raises CallTimeout inside the block when it runs longer than `seconds` (a library call that does
    not return - e.g. a sweep loop that never terminates - is reported by the caller as a violation, the check itself
    keeps going).  Uses SIGALRM: only in the main thread of a (worker) process; a no-op elsewhere."""

    def __init__(self, seconds=None):
        self.seconds = seconds or float(os.environ.get('VERIF_CALL_TIMEOUT', '300'))
        self.armed = False

    def __enter__(self):
        import signal
        import threading
        if threading.current_thread() is threading.main_thread() and hasattr(signal, 'SIGALRM'):
            def handler(signum, frame):
                raise CallTimeout('no result within %g s' % self.seconds)
            self.old = signal.signal(signal.SIGALRM, handler)
            signal.setitimer(signal.ITIMER_REAL, self.seconds)
            self.armed = True
        return self

    def __exit__(self, *exc):
        if self.armed:
            import signal
            signal.setitimer(signal.ITIMER_REAL, 0)
            signal.signal(signal.SIGALRM, self.old)
        return False
