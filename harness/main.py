import importlib
import os
import sys
import traceback


def main(argv):
    if not argv:
        print('usage: check <Cxx> [--tier quick|thorough] [--replay path]')
        return 2
    pid = argv[0]
    tier = os.environ.get('VERIF_TIER') or 'quick'
    replay = None
    selftest = False
    i = 1
    while i < len(argv):
        if argv[i] == '--tier':
            tier = argv[i + 1]
            i += 2
        elif argv[i] == '--replay':
            replay = argv[i + 1]
            i += 2
        elif argv[i] == '--selftest':
            selftest = True
            i += 1
        else:
            print('unknown argument', argv[i])
            return 2
    try:
        mod = importlib.import_module('harness.props.' + pid.lower())
        if replay:
            from . import replaycmd
            return replaycmd.main(pid, replay)
        if selftest:
            return mod.selftest()
        return mod.main(tier)
    except Exception:
        traceback.print_exc()
        print('MACHINERY-FAILURE property=%s' % pid)
        return 2


if __name__ == '__main__':
    sys.exit(main(sys.argv[1:]))
