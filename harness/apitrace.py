"""Code -> spec on the level of the whole API: a tracer that wraps every public callable of scikit_tt (TT methods and
module-level functions), so that ANY program using the library - here: the repository's own test-suite - produces a
trace of spec/Trace_TTPool.tla events:

    NewOpaque   a tensor train constructed directly by the program
    Routine     a call that is documented to leave every argument unchanged; TT objects found in the result are new
    Havoc       a call that may change its targets (ortho*, overwrite=True, a call that raised) or a change made by the
                program itself between two calls (name "external")

After every outermost call all live tensor trains are observed (dims, ranks, consistency, a value fingerprint).  The
trace specification then decides C06 for the recorded history: no object other than a target changes its value or
shape, every returned tensor train is consistent.  Nothing in /repo is modified; the wrappers are installed by
harness/pytest_apitrace.py (a pytest plugin) and removed afterwards.
"""
import functools
import inspect
import weakref

import numpy as np

from . import pool as P

MAX_OBJECTS = 24
MAX_EVENTS = 60
INPLACE = {'ortho_left', 'ortho_right', 'ortho'}
SKIP_METHODS = {'__repr__', '__str__', '__init__', '__class__', '__new__', '__getattribute__', '__setattr__',
                '__delattr__', '__dict__', '__weakref__', '__doc__', '__module__', '__hash__', '__eq__'}


def _probe_vectors(k, n, tag):
    rs = np.random.RandomState((k * 1315423911 + n * 2654435761 + tag) % (2 ** 31))
    return rs.standard_normal(n) + 1j * rs.standard_normal(n)


def fingerprint(t):
    """value fingerprint: the train contracted with fixed pseudo-random vectors in every mode (r0 x rN matrix)"""
    m = None
    for k, c in enumerate(t.cores):
        a, b = _probe_vectors(k, c.shape[1], 1), _probe_vectors(k, c.shape[2], 2)
        x = np.einsum('aijb,i,j->ab', c, a, b)
        m = x if m is None else m @ x
    return np.asarray(m, dtype=complex).reshape(-1)


class Tracer:
    def __init__(self):
        self.depth = 0
        self.active = False
        self.saved = []
        self.reset()

    # ------------------------------------------------------------------ per-trace state
    def reset(self):
        self.objs = []           # weak references (or None when dropped)
        self.keep = []           # strong references: objects of the current trace stay alive (ids must stay valid)
        self.last = []           # last observation
        self.fps = []
        self.vids = []
        self.next_vid = 1
        self.events = []
        self.overflow = False

    def begin(self, name):
        self.reset()
        self.name = name
        self.active = True

    def end(self):
        self.active = False
        ev = self.events
        self.keep = []
        return dict(name=self.name, events=ev, overflow=self.overflow)

    # ------------------------------------------------------------------ observation
    def index_of(self, t):
        for i, o in enumerate(self.keep):
            if o is t:
                return i
        return None

    def observe_one(self, i):
        t = self.keep[i]
        prob = P.metadata_problem(t)
        if prob:
            if self.fps[i] != 'inconsistent':        # becoming inconsistent is a change
                self.vids[i] = self.next_vid
                self.next_vid += 1
                self.fps[i] = 'inconsistent'
            return dict(ok=False, rd=[], cd=[], r0=0, rN=0, rk=[], lo=[], ro=[], vid=self.vids[i], isint=False, v=[]), None
        fp = fingerprint(t)
        shape = (tuple(t.row_dims), tuple(t.col_dims), tuple(t.ranks))
        old = self.fps[i]
        same = old is not None and old != 'inconsistent' and old[0] == shape and old[1].shape == fp.shape and _close(old[1], fp)
        if not same:
            self.vids[i] = self.next_vid
            self.next_vid += 1
            self.fps[i] = (shape, fp)
        ob = dict(ok=True, rd=[int(v) for v in t.row_dims], cd=[int(v) for v in t.col_dims], r0=int(t.ranks[0]),
                  rN=int(t.ranks[-1]), rk=[int(v) for v in t.ranks], lo=[], ro=[], vid=self.vids[i], isint=False, v=[])
        return ob, same

    def observe(self):
        out, changed = [], []
        for i in range(len(self.keep)):
            ob, same = self.observe_one(i)
            out.append(ob)
            if same is False and self.last and i < len(self.last):
                changed.append(i)
        self.last = out
        return out, changed

    def register(self, t):
        if self.index_of(t) is not None:
            return None
        if len(self.keep) >= MAX_OBJECTS:
            self.overflow = True
            return None
        self.keep.append(t)
        self.fps.append(None)
        self.vids.append(0)
        return len(self.keep) - 1

    def dims_of(self, t):
        if P.metadata_problem(t):
            return dict(rd=[], cd=[], r0=0, rN=0)
        return dict(rd=[int(v) for v in t.row_dims], cd=[int(v) for v in t.col_dims], r0=int(t.ranks[0]), rN=int(t.ranks[-1]))

    # ------------------------------------------------------------------ events
    def emit(self, ev):
        if len(self.events) >= MAX_EVENTS:
            self.overflow = True
            return
        self.events.append(ev)

    def pre_call(self, tts):
        """changes since the last event are the program's own (event Havoc "external"); objects first seen as
        arguments were built by the program (event NewOpaque)"""
        if self.keep:
            prev_vids = list(self.vids)
            obs, _ = self.observe()
            changed = [i for i in range(len(prev_vids)) if self.vids[i] != prev_vids[i]]
            if changed:
                self.emit(dict(op='Havoc', name='external', args=[i + 1 for i in changed],
                               dims=[self.dims_of(self.keep[i]) for i in changed], fresh=[], obs=obs))
        for t in tts:
            i = self.register(t)
            if i is not None:
                obs, _ = self.observe()
                self.emit(dict(op='NewOpaque', obs=obs, **self.dims_of(t)))

    def post_call(self, name, tts, targets, result, raised):
        args = [self.index_of(t) + 1 for t in tts if self.index_of(t) is not None]
        fresh = []
        for t in _collect(result):
            i = self.register(t)
            if i is not None:
                fresh.append(self.dims_of(t))
        if raised:
            tg = [self.index_of(t) for t in tts if self.index_of(t) is not None]
        else:
            tg = [self.index_of(t) for t in targets if self.index_of(t) is not None]
        obs, _ = self.observe()
        if tg:
            self.emit(dict(op='Havoc', name=name, args=[i + 1 for i in tg], dims=[self.dims_of(self.keep[i]) for i in tg],
                           fresh=fresh, obs=obs))
        else:
            self.emit(dict(op='Routine', name=name, args=args, fresh=fresh, obs=obs))


def _close(a, b):
    fa, fb = np.isfinite(a), np.isfinite(b)
    if not np.array_equal(fa, fb):
        return False
    if not np.any(fa):
        return True
    s = max(1e-300, float(np.max(np.abs(a[fa]))))
    return bool(np.max(np.abs(a[fa] - b[fa])) <= 1e-8 * s)


_TT = None


def _collect(x, out=None, depth=0):
    out = [] if out is None else out
    if _TT is not None and isinstance(x, _TT):
        out.append(x)
    elif isinstance(x, (list, tuple)) and depth < 3:
        for y in x[:50]:
            _collect(y, out, depth + 1)
    return out


TRACER = Tracer()


def _wrap(fn, name, is_method):
    @functools.wraps(fn)
    def wrapper(*a, **kw):
        tr = TRACER
        if not tr.active or tr.depth > 0 or tr.overflow:
            tr.depth += 1
            try:
                return fn(*a, **kw)
            finally:
                tr.depth -= 1
        tts = _collect(list(a) + list(kw.values()))
        try:
            tr.pre_call(tts)
        except Exception:
            tr.overflow = True
        tr.depth += 1
        raised = False
        res = None
        try:
            res = fn(*a, **kw)
            return res
        except BaseException:
            raised = True
            raise
        finally:
            tr.depth -= 1
            if not tr.overflow:
                try:
                    targets = []
                    if is_method and a:
                        if name.split('.')[-1] in INPLACE or kw.get('overwrite') is True:
                            targets = [a[0]]
                    tr.post_call(name, tts, targets, res, raised)
                except Exception:
                    tr.overflow = True
    wrapper.__wrapped_by_apitrace__ = True
    return wrapper


def install():
    """wrap every public callable of the scikit_tt package (idempotent); returns the number of wrapped callables"""
    global _TT
    import importlib
    import pkgutil
    import scikit_tt
    import scikit_tt.tensor_train as ttm
    _TT = ttm.TT
    n = 0
    for key, val in list(vars(ttm.TT).items()):
        if key in SKIP_METHODS or not callable(val) or getattr(val, '__wrapped_by_apitrace__', False):
            continue
        if key.startswith('_') and not (key.startswith('__') and key.endswith('__')):
            continue
        if isinstance(val, (staticmethod, classmethod)):
            continue
        TRACER.saved.append((ttm.TT, key, val))
        setattr(ttm.TT, key, _wrap(val, 'TT.' + key, True))
        n += 1
    mods = []
    for info in pkgutil.walk_packages(scikit_tt.__path__, 'scikit_tt.'):
        try:
            mods.append(importlib.import_module(info.name))
        except Exception:
            pass
    for mod in mods:
        for key, val in list(vars(mod).items()):
            if key.startswith('_') or not inspect.isfunction(val) or val.__module__ != mod.__name__:
                continue
            if getattr(val, '__wrapped_by_apitrace__', False):
                continue
            w = _wrap(val, mod.__name__.split('.', 1)[1] + '.' + key, False)
            TRACER.saved.append((mod, key, val))
            setattr(mod, key, w)
            n += 1
    # names imported elsewhere with "from x import f" keep pointing to the original function: re-bind them too
    table = {id(orig): getattr(owner, key) for owner, key, orig in TRACER.saved if not isinstance(owner, type)}
    import sys
    for mname, mod in list(sys.modules.items()):
        if mod is None or not (mname.startswith('scikit_tt') or mname.startswith('tests') or mname.startswith('test_')):
            continue
        for key, val in list(vars(mod).items()):
            if inspect.isfunction(val) and id(val) in table and not getattr(val, '__wrapped_by_apitrace__', False):
                TRACER.saved.append((mod, key, val))
                setattr(mod, key, table[id(val)])
    return n


def uninstall():
    for owner, key, orig in reversed(TRACER.saved):
        setattr(owner, key, orig)
    TRACER.saved.clear()
