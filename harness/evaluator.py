"""Generic numeric evaluator for the expression / term language emitted by the TLA+ specifications
(trusted base for role R3 of DESIGN.md): it knows nothing about any particular property."""
import math
import numpy as np


def ev_expr(e, x):
    """Evaluate an expression tree of spec/Calculus.tla at the point x (sequence of floats)."""
    k = e['k']
    if k == 'c':
        return e['n'] / e['d']
    if k == 'x':
        return x[e['i']]
    if k == '+':
        return ev_expr(e['a'], x) + ev_expr(e['b'], x)
    if k == '*':
        return ev_expr(e['a'], x) * ev_expr(e['b'], x)
    if k == '^':
        return ev_expr(e['a'], x) ** e['p']
    if k == 'sin':
        return math.sin(ev_expr(e['a'], x))
    if k == 'cos':
        return math.cos(ev_expr(e['a'], x))
    if k == 'exp':
        return math.exp(ev_expr(e['a'], x))
    if k == 'ind':
        return 1.0 if (e['lo'][0] / e['lo'][1] <= x[e['i']] < e['hi'][0] / e['hi'][1]) else 0.0
    raise KeyError(k)


def rat(r):
    return r[0] / r[1]
