"""Generic driver: generate histories of the pool machine with TLC, replay them into the code."""
import time
from collections import Counter
from concurrent.futures import ProcessPoolExecutor

from . import tlc, pool, common


def _shape_feature(hist, idx):
    ev = hist[idx]
    feats = []
    ids = [ev[k] for k in ('a', 'b', 'x') if k in ev]
    # abstract objects known so far
    objs = []
    for e in hist[:idx]:
        for m in e['mod']:
            objs[m[0] - 1] = m[1]
        objs.extend(e['new'])
    orders = [len(objs[i - 1]['d']['rd']) for i in ids if i - 1 < len(objs)]
    if orders and max(orders) == 1:
        feats.append('order1')
    return ','.join(feats)


def _replay_chunk(args):
    chunk, layouts, dedupe = args
    common.import_repo()
    import scikit_tt.tensor_train as tt_mod
    out = []
    calls = 0
    for hist in chunk:
        for lay in layouts:
            def on_v(idx, cat, msg, hist=hist, lay=lay):
                out.append((idx, cat + (':fortran-cores' if lay == 'F' else ''), msg, hist))
            try:
                with common.watchdog():
                    calls += pool.replay(tt_mod, hist, on_v, fortran=(lay == 'F'), dedupe=dedupe)
            except common.CallTimeout as e:
                on_v(len(hist) - 1, 'timeout', 'the replay of one history did not finish (%s)' % e)
    return calls, out


def replay_all(cases, signature, rep, procs=None, layouts=('C',), dedupe=False):
    """Replay all histories in parallel; report violations via rep.  Returns number of API calls."""
    procs = procs or int(__import__('os').environ.get('VERIF_PROCS', '16'))
    n = max(1, min(procs, len(cases) // 50 + 1))
    chunks = [cases[i::n] for i in range(n)]
    calls = 0
    with ProcessPoolExecutor(max_workers=n) as ex:
        for c, out in ex.map(_replay_chunk, [(ch, layouts, dedupe) for ch in chunks]):
            calls += c
            for idx, cat, msg, hist in out:
                if cat.startswith('reject_note'):
                    rep.note('documented error path: ' + msg)      # exception types are not part of the listed properties
                    continue
                rep.violation(signature(hist, idx, cat), msg, dict(kind='pool_history', history=hist, event=idx))
    return calls


def default_signature(hist, idx, cat):
    ev = hist[idx]
    f = _shape_feature(hist, idx)
    return '%s:%s%s' % (ev['op'], cat, (':' + f) if f else '')


def run(pid, tier, runs, assumptions, rule, signature=default_signature, extra_cov=None, traces=None, layouts=('C',),
        api_traces=False):
    """runs: list of dicts(constants=..., nshards=..., name=...)."""
    rep = common.Reporter(pid, tier)
    states = trans = 0
    ncases = 0
    calls = 0
    ops = Counter()
    samples = []
    distinct = set()
    import os
    only = os.environ.get('VERIF_ONLY')
    for r in runs:
        if only and r.get('name') not in only.split(','):
            continue
        consts = dict(r['constants'])
        if 'Ops' in consts:
            consts['OpsAt'] = [consts.pop('Ops')] * consts['MaxDepth']
        cases, st = tlc.run_sharded('TTPool', consts, r.get('nshards', 16), tag=r.get('name', 'g'),
                                    invariants=['Emit', 'Consistent'], properties=['ValueSemantics'])
        states += st['distinct']
        trans += st['generated']
        ncases += len(cases)
        for c in cases:
            ops.update(e['op'] for e in c if e['op'] != 'New')
        if cases:
            samples.append(_sample(cases[len(cases) // 2]))
        calls += replay_all(cases, signature, rep, layouts=r.get('layouts', layouts),
                            dedupe=any('rep' in kp for kp in r['constants'].get('KindPairs', ())))
    cov = dict(states=states, transitions=trans, traces_validated_against_impl=ncases,
               api_calls_replayed=calls, per_operation=dict(ops), samples=samples, rule=rule,
               exhaustive=True,
               checker_cmd='tlc -workers 1 MC_TTPool_* (16 shards) ; python replay harness/pool.py')
    if traces and not only:
        from . import tracecheck
        tc = tracecheck.run_stage(rep, traces[0], traces[1], common.seed() + 1, routine_rounds=traces[2] if len(traces) > 2 else 0)
        cov.update(tc)
        cov['traces_validated_against_impl'] += tc['recorded_traces_accepted']
        cov['states'] += tc['trace_states']
        cov['transitions'] += tc['trace_transitions']
    if api_traces and not only:
        # the repository's own tests under the API tracer (harness/apitrace.py): Routine / Havoc / NewOpaque traces
        from . import apitest
        ac = apitest.run_stage(rep, tier)
        cov.update(ac)
        cov['traces_validated_against_impl'] += ac.get('api_traces_accepted', 0)
        cov['states'] += ac.get('api_trace_states', 0)
        cov['transitions'] += ac.get('api_trace_transitions', 0)
    if extra_cov:
        cov.update(extra_cov)
    return rep.finish(cov, assumptions)


def _sample(hist):
    """A compact human-readable rendering of one generated history."""
    out = []
    for e in hist:
        if e['op'] == 'New':
            o = e['new'][0]
            out.append('New rd=%s cd=%s ranks=%s' % (o['d']['rd'], o['d']['cd'], o['rk']))
        else:
            d = {k: v for k, v in e.items() if k not in ('new', 'mod', 'res', 'matrix')}
            d['expected_new'] = [dict(rd=o['d']['rd'], cd=o['d']['cd'], v=o['d']['v'][:6]) for o in e['new']]
            out.append(d)
    return out
