"""Batch validation of recorded pool traces with TLC (spec/Trace_TTPool.tla)."""
import json
import os
import random
import re
from concurrent.futures import ProcessPoolExecutor, ThreadPoolExecutor

from . import tlc, common, record

ALLOPS = {'Full', 'Matricize', 'Elements', 'IsOperator', 'Norm2', 'Norm1', 'Residual', 'Add', 'Sub', 'SMul', 'MatMul',
          'Transpose', 'Conj', 'Copy', 'Tensordot', 'RankTensordot', 'Concatenate', 'RankTranspose', 'Diag', 'Squeeze',
          'TT2QTT', 'QTT2TT', 'OrthoLeft', 'OrthoRight', 'Ortho', 'OrthoTrunc', 'Svd', 'Pinv'}

CONSTS = dict(Scenarios=set(), Lean=False, MaxD=6, MaxDB=6, DimsR={1}, DimsC={1}, RanksS={1}, KindPairs={('real', 'real')},
              Seeds={1}, MaxDepth=64, NShards=1, Shard=0, Vias={'matmul', 'dot'}, OWs={False, True}, QL=3, EmitAll=False, IslLevel=0)


def _record_chunk(args):
    seed, n, nsteps, first_tid = args
    common.import_repo()
    import scikit_tt.tensor_train as tt_mod
    rng = random.Random(seed)
    out = []
    for k in range(n):
        out.append(dict(tid=first_tid + k, events=record.random_history(tt_mod, rng, nsteps)))
    return out


def record_random(ntraces, nsteps, seed, procs=None):
    procs = procs or int(os.environ.get('VERIF_PROCS', '16'))
    per = (ntraces + procs - 1) // procs
    jobs = [(seed * 1000 + p, per, nsteps, p * per + 1) for p in range(procs)]
    with ProcessPoolExecutor(max_workers=procs) as ex:
        chunks = list(ex.map(_record_chunk, jobs))
    return chunks          # one list of traces per future TLC process


def validate(chunks, timeout=1800):
    """Validate each chunk (list of traces) in its own TLC process.
    Returns (verdicts {tid: ('ok'|'bad'|'reject', detail)}, stats)."""
    verdicts = {}
    stats = dict(generated=0, distinct=0, runs=0)
    mc_extra = 'MC_OpsAt == [k \\in 1..64 |-> %s]\n' % tlc.cfg_value(ALLOPS)
    with tlc.Workdir() as wd:
        def one(k):
            ch = chunks[k]
            # renumber tids locally 1..n for the TLC registers; keep the global id inside
            path = os.path.join(wd.path, 'trace_%d.ndjson' % k)
            with open(path, 'w') as f:
                for t in ch:
                    f.write(json.dumps(t) + '\n')
            name = 'MC_Trace_%d' % k
            consts = dict(CONSTS)
            mc = tlc.make_mc(name, 'Trace_TTPool', consts, extra_defs=mc_extra)
            consts2 = dict(consts)
            consts2['OpsAt'] = 0
            cfg = tlc.make_cfg(consts2, spec='TraceSpec', constraints=['Mark'], postcondition='Post',
                               substituted=True)
            r = tlc.run_tlc(wd, name, cfg, tag='t%d' % k, mc_text=mc, workers=1, env={'TRACE_FILE': path},
                            timeout=timeout)
            return ch, r
        with ThreadPoolExecutor(max_workers=int(os.environ.get('VERIF_PROCS', '16'))) as ex:
            results = list(ex.map(one, range(len(chunks))))
    for ch, r in results:
        stats['generated'] += r['generated']
        stats['distinct'] += r['distinct']
        stats['runs'] += 1
        bad = {}
        rej = {}
        for line in r['stdout'].splitlines():
            m = re.match(r'<<"@@BAD", (\d+), "([^"]*)">>', line)
            if m:
                bad[int(m.group(1))] = m.group(2)
            m = re.match(r'<<"@@REJECT", (\d+), (-?\d+)>>', line)
            if m:
                rej[int(m.group(1))] = int(m.group(2))
        for t in ch:
            tid = t['tid']
            if tid in bad:
                verdicts[tid] = ('bad', bad[tid])
            elif tid in rej:
                verdicts[tid] = ('reject', 'consumed %d of %d events' % (rej[tid], len(t['events'])))
            else:
                verdicts[tid] = ('ok', '')
    return verdicts, stats


def run_stage(rep, ntraces, nsteps, seed, routine_rounds=0):
    """Record random histories (and routine-level traces), validate them with TLC, report.  Returns coverage dict."""
    chunks = record_random(ntraces, nsteps, seed)
    nroutine = 0
    if routine_rounds:
        from . import routines
        rt = routines.record_routines(seed, routine_rounds)
        base = max(t['tid'] for ch in chunks for t in ch) + 1
        for k, t in enumerate(rt):
            t['tid'] = base + k
        nroutine = len(rt)
        per = (len(rt) + 3) // 4
        chunks += [rt[i:i + per] for i in range(0, len(rt), per)]
    verdicts, stats = validate(chunks)
    by_tid = {t['tid']: t for ch in chunks for t in ch}
    ok = 0
    nev = 0
    for tid, (kind, detail) in verdicts.items():
        tr = by_tid[tid]
        nev += len(tr['events'])
        if kind == 'ok':
            ok += 1
        elif kind == 'bad':
            idx, clause = detail.split(':', 1)
            ev = tr['events'][int(idx) - 1]
            sig = 'trace:%s:%s' % (ev.get('name', ev['op']), clause)
            rep.violation(sig, 'recorded trace rejected by spec/Trace_TTPool.tla at event %s (%s): clause "%s" %s' % (
                idx, ev['op'], clause, ev.get('raised', '')), dict(kind='pool_trace', trace=tr, event=int(idx) - 1))
        else:
            raise RuntimeError('trace %d not explained by the specification (%s): driver/spec precondition mismatch; '
                               'ops=%s' % (tid, detail, [e['op'] for e in tr['events']]))
    sample = None
    for t in by_tid.values():
        if len(t['events']) >= 4:
            sample = [{k: v for k, v in e.items() if k not in ('obs', 'cores', 'res', 'matrix')} for e in t['events']]
            break
    return dict(recorded_traces=len(verdicts), recorded_routine_traces=nroutine, recorded_traces_accepted=ok, recorded_events=nev,
                trace_states=stats['distinct'], trace_transitions=stats['generated'], trace_sample=sample)


def selftest(seed=7):
    """Demonstrate the binding: a corrupted observation and a dropped event must be rejected."""
    import copy
    chunks = record_random(48, 6, seed, procs=2)
    good = [t for ch in chunks for t in ch if len(t['events']) >= 5][:12]
    cases = []
    for k, t in enumerate(good):
        a = copy.deepcopy(t)
        a['tid'] = 3 * k + 1
        cases.append(('intact', a))
        b = copy.deepcopy(t)
        b['tid'] = 3 * k + 2
        # corrupt one observed entry of the last object after the last event
        for e in reversed(b['events']):
            o = e['obs'][-1]
            if o['isint'] and o['v']:
                o['v'][0][0] += 1
                break
        cases.append(('corrupt', b))
        c = copy.deepcopy(t)
        c['tid'] = 3 * k + 3
        # drop one state-changing event (dropping a pure observer leaves another valid behaviour)
        prev = None
        drop = None
        for i, e in enumerate(c['events']):
            # new object or changed VALUE (a value id also changes when only ranks change: re-gauging is not state-changing here)
            sig = [json.dumps(o['v']) if o['isint'] else o['vid'] for o in e['obs']]
            if e['op'] != 'New' and prev is not None and sig != prev and i < len(c['events']) - 1:
                drop = i
                break
            prev = sig
        if drop is not None:
            del c['events'][drop]
            cases.append(('dropped', c))
    verdicts, _ = validate([[c for _, c in cases]])
    fails = []
    for kind, c in cases:
        v = verdicts[c['tid']][0]
        want = {'intact': ('ok',), 'corrupt': ('bad',), 'dropped': ('bad', 'reject')}[kind]
        if v not in want:
            fails.append((kind, c['tid'], v))
    print('trace selftest: %d cases, %d unexpected verdicts %s' % (len(cases), len(fails), fails[:5]))
    return 0 if not fails else 1
