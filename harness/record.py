"""Code -> spec conformance for the TT pool: drive the real implementation along (pseudo-)random call
histories, record one event per call with the observed abstract state of every live object, and let
TLC validate the recorded traces against spec/Trace_TTPool.tla."""
import json
import os
import random
import numpy as np

from . import pool as P

INT_TOL = 1e-6


def decode(v):
    """complex vector -> (isint, list of [re, im]) by rounding to the Gaussian-integer lattice"""
    re, im = np.round(v.real), np.round(v.imag)
    scale = max(1.0, float(np.max(np.abs(v))) if v.size else 1.0)
    if v.size and (np.max(np.abs(v.real - re)) > INT_TOL * scale or np.max(np.abs(v.imag - im)) > INT_TOL * scale
                   or np.max(np.abs(v)) > 2e9):
        return False, []
    return True, [[int(a), int(b)] for a, b in zip(re, im)]


class Observer:
    """Projects live objects to the abstract state; value ids change exactly when the value changes."""

    def __init__(self):
        self.vals = []
        self.vids = []
        self.shapes = []      # shape metadata (dims and ranks) belongs to the observed state of an operand
        self.next_vid = 1

    def observe(self, objs):
        out = []
        for i, t in enumerate(objs):
            prob = P.metadata_problem(t)
            if prob:
                if i >= len(self.vals):      # keep the bookkeeping aligned with the object list
                    self.vals.append(np.zeros(0, dtype=complex))
                    self.shapes.append(None)
                    self.vids.append(self.next_vid)
                    self.next_vid += 1
                out.append(dict(ok=False, rd=[], cd=[], r0=0, rN=0, rk=[], lo=[], ro=[], vid=0, isint=False, v=[]))
                continue
            val = P.contract(t.cores).reshape(-1).astype(complex)
            shp = (tuple(t.row_dims), tuple(t.col_dims), tuple(t.ranks))
            if i < len(self.vals):
                old = self.vals[i]
                same = old.shape == val.shape and _same_value(old, val) and self.shapes[i] == shp
                if not same:
                    self.vids[i] = self.next_vid
                    self.next_vid += 1
                    self.vals[i] = val
                    self.shapes[i] = shp
            else:
                self.vals.append(val)
                self.shapes.append(shp)
                self.vids.append(self.next_vid)
                self.next_vid += 1
            isint, v = decode(val) if np.all(np.isfinite(val)) else (False, [])
            out.append(dict(ok=True, rd=list(map(int, t.row_dims)), cd=list(map(int, t.col_dims)),
                            r0=int(t.ranks[0]), rN=int(t.ranks[-1]), rk=list(map(int, t.ranks)),
                            lo=[k for k, c in enumerate(t.cores) if P.iso_defect(c, 'left') <= P.ISO_TOL],
                            ro=[k for k, c in enumerate(t.cores) if P.iso_defect(c, 'right') <= P.ISO_TOL],
                            vid=self.vids[i], isint=isint, v=v))
        return out


def _same_value(old, val):
    """equal up to rounding; non-finite entries (e.g. exact DMD modes of singular data) must match in place and kind"""
    if val.size == 0:
        return True
    fo, fv = np.isfinite(old), np.isfinite(val)
    if not np.array_equal(fo, fv):
        return False
    if not np.all(fv) and not np.array_equal(old[~fv], val[~fv], equal_nan=True):
        return False
    if not np.any(fv):
        return True
    return bool(np.max(np.abs(old[fv] - val[fv])) <= 1e-9 * max(1.0, float(np.max(np.abs(old[fv])))))


def _int_or(x, default=-1):
    r = round(float(np.real(x)))
    return int(r) if abs(np.real(x) - r) <= INT_TOL * max(1.0, abs(r)) and abs(np.imag(x)) < INT_TOL else default


def perform(tt_mod, objs, ev):
    """Perform the call of `ev` on the real objects; returns (new objects, observed result fields)."""
    TT = tt_mod.TT
    op = ev['op']
    A = objs[ev['a'] - 1] if 'a' in ev else None
    B = objs[ev['b'] - 1] if 'b' in ev else None
    ow = ev.get('ow', False)

    def arr(x):
        isint, v = decode(np.asarray(x).reshape(-1).astype(complex))
        return dict(res=dict(isint=isint, v=v, shape=list(map(int, np.asarray(x).shape))))

    def newobj(r):
        return ([] if ow else [r]), {}
    if op == 'Full':
        return [], arr(A.full())
    if op == 'Matricize':
        return [], arr(A.matricize())
    if op == 'Elements':
        rd, cd = list(A.row_dims), list(A.col_dims)
        R, C = int(np.prod(rd)), int(np.prod(cd))
        vals = []
        for k in range(R * C):
            I = [int(i) for i in np.unravel_index(k // C, rd)]
            J = [int(j) for j in np.unravel_index(k % C, cd)]
            vals.append(A.element(I + J))
        r = arr(np.array(vals))
        r['res']['shape'] = rd + cd
        return [], r
    if op == 'IsOperator':
        return [], dict(res=bool(A.isoperator()))
    if op == 'Norm2':
        n = A.norm(p=2)
        return [], dict(ressq=_int_or(n * n))
    if op == 'Norm1':
        return [], dict(res=_int_or(A.norm(p=1)))
    if op == 'Residual':
        n = tt_mod.residual_error(A, objs[ev['x'] - 1], B)
        return [], dict(ressq=_int_or(n * n))
    if op == 'Add':
        return newobj(A + B)
    if op == 'Sub':
        return newobj(A - B)
    if op == 'SMul':
        s = P.pyscalar(ev['s'], ev['how'])
        return newobj(s * A if ev['side'] == 'left' else A * s)
    if op == 'MatMul':
        r = (A @ B) if ev['via'] == 'matmul' else A.dot(B)
        if not isinstance(r, TT):
            isint, v = decode(np.array([r], dtype=complex))
            return [], dict(scalar=v[0] if isint else [0, 0], scalar_isint=isint)
        return [r], {}
    if op == 'Transpose':
        kw = {} if ev['all'] else {'cores': sorted(ev['cores'])}
        return newobj(A.transpose(conjugate=ev['conj'], overwrite=ow, **kw))
    if op == 'Conj':
        return newobj(A.conj(overwrite=ow))
    if op == 'Copy':
        return [A.copy()], {}
    if op == 'Tensordot':
        return newobj(A.tensordot(B, ev['k'], mode=ev['mode'], overwrite=ow))
    if op == 'RankTensordot':
        return newobj(A.rank_tensordot(P.carray(ev['matrix']).real.copy(), mode=ev['mode'], overwrite=ow))
    if op == 'Concatenate':
        other = B if ev['form'] == 'tt' else [c.copy() for c in B.cores]
        return newobj(A.concatenate(other, overwrite=ow))
    if op == 'RankTranspose':
        return newobj(A.rank_transpose(overwrite=ow))
    if op == 'Diag':
        return [A.diag(sorted(ev['list']))], {}
    if op == 'Squeeze':
        return [A.squeeze()], {}
    if op == 'TT2QTT':
        return [A.tt2qtt([list(x) for x in ev['rds']], [list(x) for x in ev['cds']])], {}
    if op == 'QTT2TT':
        return [A.qtt2tt(list(ev['nums']))], {}
    if op == 'OrthoLeft':
        A.ortho_left() if ev['dflt'] else A.ortho_left(start_index=ev['s'], end_index=ev['e'])
        return [], {}
    if op == 'OrthoRight':
        A.ortho_right() if ev['dflt'] else A.ortho_right(start_index=ev['s'], end_index=ev['e'])
        return [], {}
    if op == 'Ortho':
        A.ortho()
        return [], {}
    if op == 'OrthoTrunc':
        r = ev['maxrank']
        {'left': A.ortho_left, 'right': A.ortho_right, 'both': A.ortho}[ev['which']](max_rank=r)
        return [], {}
    if op == 'Svd':
        u, s, v = A.svd(ev['index'], overwrite=ow)
        return [u, v], {}
    if op == 'Pinv':
        return [A.pinv(ev['index'], threshold=1e-12, overwrite=ow)], {}
    raise KeyError(op)


# ------------------------------------------------------------------ random driver
def rand_cores(rng, d, cplx, maxdim=3, maxrank=3, vec=False, square=False, r0=1, rN=1):
    rk = [r0] + [rng.randint(1, maxrank) for _ in range(d - 1)] + [rN]
    cores = []
    for k in range(d):
        m = rng.randint(1, maxdim)
        n = 1 if vec else (m if square else rng.randint(1, maxdim))
        c = [[[[[rng.randint(-3, 3), rng.randint(-2, 2) if cplx else 0] for _ in range(rk[k + 1])]
               for _ in range(n)] for _ in range(m)] for _ in range(rk[k])]
        cores.append(c)
    return cores


def candidates(rng, objs, dead, opaque, factors=()):
    """All calls the documented preconditions admit on the current real objects (mirrors the guards
    of spec/TTPool.tla; the spec re-checks them: a trace with an inadmissible call is not consumed)."""
    out = []
    live = [i for i in range(len(objs)) if i not in dead]
    exact = [i for i in live if i not in opaque]
    mx = [float(np.max(np.abs(P.contract(t.cores)))) if i in exact else 0.0 for i, t in enumerate(objs)]
    sz = [int(np.prod(t.row_dims)) * int(np.prod(t.col_dims)) for t in objs]

    # the zero tensor represented by cancelling non-zero cores (A - A): after a sweep its entries are rounding noise, which every
    # further contraction with integer data amplifies until it no longer rounds to the exact value 0 (relative accuracy is
    # meaningless at 0).  Such objects are observed but not used as operands by the driver (conditioning, not a verdict).
    cancelling = {i for i in exact if mx[i] < 0.5 and any(np.max(np.abs(c)) > 0.5 for c in objs[i].cores if np.size(c))}
    exact = [i for i in exact if i not in cancelling]
    live = [i for i in live if i not in cancelling]

    def closed(i):
        return objs[i].ranks[0] == 1 and objs[i].ranks[-1] == 1
    for i in exact:
        t = objs[i]
        a = i + 1
        d = t.order
        cplx = any(np.iscomplexobj(c) and np.any(c.imag != 0) for c in t.cores)
        if closed(i):
            out += [dict(op='Full', a=a), dict(op='Matricize', a=a), dict(op='IsOperator', a=a)]
            if sz[i] * mx[i] ** 2 < 5e8:
                out.append(dict(op='Norm2', a=a))
            if int(np.prod(t.row_dims)) * int(np.prod(t.col_dims)) <= 64:
                out.append(dict(op='Elements', a=a))
            S = sorted(rng.sample(range(d), rng.randint(1, d)))
            conj = rng.random() < 0.5
            if conj:
                S = list(range(d))
            out.append(dict(op='Transpose', a=a, cores=S, all=len(S) == d, conj=conj, ow=rng.random() < 0.3))
            out.append(dict(op='RankTranspose', a=a, ow=rng.random() < 0.3))
            vecmodes = [k for k in range(d) if t.col_dims[k] == 1]
            if vecmodes:
                out.append(dict(op='Diag', a=a, list=sorted(rng.sample(vecmodes, rng.randint(1, len(vecmodes))))))
            ones = [k for k in range(d) if t.row_dims[k] == 1 and t.col_dims[k] == 1]
            if ones and len(ones) < d:
                out.append(dict(op='Squeeze', a=a))
            if d >= 2 and all(c == 1 for c in t.col_dims):
                idx = rng.randint(1, d - 1)
                out.append(dict(op='Svd', a=a, index=idx, ow=rng.random() < 0.3))
                if mx[i] > 0.5:      # not the zero tensor (integer values; after a sweep an exact zero is rounding noise)
                    out.append(dict(op='Pinv', a=a, index=idx, ow=rng.random() < 0.2))
            if d >= 1:
                nums = []
                rest = d
                while rest:
                    k = rng.randint(1, rest)
                    nums.append(k)
                    rest -= k
                out.append(dict(op='QTT2TT', a=a, nums=nums))
        s = rng.choice([[2, 0], [-3, 0], [0, 0], [1, 2], [0, -1]])
        how = 'complex' if s[1] else rng.choice(['int', 'float', 'complex'])
        if mx[i] < 3e3:
            out.append(dict(op='SMul', a=a, s=s, side=rng.choice(['left', 'right']), how=how))
        out.append(dict(op='Conj', a=a, ow=rng.random() < 0.3))
        out.append(dict(op='Copy', a=a))
        for j in exact:
            u = objs[j]
            b = j + 1
            if mx[i] * mx[j] * 64 > 1e5:      # keep every exact intermediate far below 2^31 (TLC integers)
                continue
            if sz[i] * sz[j] > 4096:
                continue
            if closed(i) and closed(j):
                if t.row_dims == u.row_dims and t.col_dims == u.col_dims:
                    out += [dict(op='Add', a=a, b=b), dict(op='Sub', a=a, b=b)]
                if t.col_dims == u.row_dims:
                    out.append(dict(op='MatMul', a=a, b=b, via=rng.choice(['matmul', 'dot'])))
                for mode in ('last-first', 'last-last', 'first-last', 'first-first'):
                    for k in range(1, min(t.order, u.order) + 1):
                        ts = slice(t.order - k, t.order) if mode.startswith('last') else slice(0, k)
                        us = slice(0, k) if mode.endswith('first') else slice(u.order - k, u.order)
                        if t.row_dims[ts] == u.row_dims[us] and t.col_dims[ts] == u.col_dims[us]:
                            if t.order + u.order - 2 * k <= 5:
                                out.append(dict(op='Tensordot', a=a, b=b, k=k, mode=mode, ow=(i != j and rng.random() < 0.2)))
            if t.ranks[-1] == u.ranks[0] and t.order + u.order <= 5:
                out.append(dict(op='Concatenate', a=a, b=b, form=rng.choice(['tt', 'list']),
                                ow=(i != j and rng.random() < 0.2)))
    for i in live:
        t = objs[i]
        a = i + 1
        d = t.order
        # factors of TT.svd: the model carries a bound for their open boundary rank, not its value, so whether such a
        # factor happens to be closed (numerical rank 1) is not known to the specification: no sweeps on them
        if i in factors:
            continue
        if t.ranks[0] == 1 and t.ranks[-1] == 1:
            if d >= 2:
                s_ = rng.randint(0, d - 2)
                e_ = rng.randint(s_, d - 2)
                dflt = rng.random() < 0.3
                out.append(dict(op='OrthoLeft', a=a, s=0 if dflt else s_, e=d - 2 if dflt else e_, dflt=dflt))
                e_ = rng.randint(1, d - 1)
                s_ = rng.randint(e_, d - 1)
                dflt = rng.random() < 0.3
                out.append(dict(op='OrthoRight', a=a, s=d - 1 if dflt else s_, e=1 if dflt else e_, dflt=dflt))
                out.append(dict(op='OrthoTrunc', a=a, which=rng.choice(['left', 'right', 'both']), maxrank=rng.randint(1, 3)))
            out.append(dict(op='Ortho', a=a))
    return out


def random_history(tt_mod, rng, nsteps):
    """Returns the recorded trace (list of events)."""
    TT = tt_mod.TT
    obsv = Observer()
    objs, events = [], []
    dead, opaque, factors = set(), set(), set()
    d = rng.randint(1, 4)
    cplx = rng.random() < 0.4
    vec = rng.random() < 0.5
    n0 = rng.randint(1, 2)
    for _ in range(n0):
        cores = rand_cores(rng, d, cplx, vec=vec, maxdim=(3 if vec else 2) if d >= 3 else 3)
        if objs and rng.random() < 0.7:       # same dims as the first object, own ranks
            rk = [1] + [rng.randint(1, 3) for _ in range(d - 1)] + [1]
            first = events[0]['cores']
            cores = [[[[[[rng.randint(-3, 3), rng.randint(-2, 2) if cplx else 0] for _ in range(rk[k + 1])]
                        for _ in range(len(first[k][0][0]))] for _ in range(len(first[k][0]))]
                      for _ in range(rk[k])] for k in range(d)]
        objs.append(TT(P.core_arrays(cores)))
        events.append(dict(op='New', cores=cores, obs=obsv.observe(objs)))
    for _ in range(nsteps):
        cands = candidates(rng, objs, dead, opaque, factors)
        if not cands:
            break
        # prefer in-place calls after producers now and then
        ev = rng.choice(cands)
        try:
            from .common import watchdog
            with watchdog():
                new, res = perform(tt_mod, objs, ev)
        except Exception as e:      # an admissible call that raises (or does not return) is a violation; the trace ends here
            ev['raised'] = '%s: %s' % (type(e).__name__, e)
            events.append(ev)
            break
        ev.update(res)
        if ev['op'] in ('Svd', 'Pinv'):
            if ev.get('ow'):
                dead.add(ev['a'] - 1)
            for k in range(len(new)):
                opaque.add(len(objs) + k)
                if ev['op'] == 'Svd':
                    factors.add(len(objs) + k)
        if ev['op'] == 'OrthoTrunc':
            opaque.add(ev['a'] - 1)      # conservatively: the driver does not build on truncated values
        objs.extend(new)
        ev['obs'] = obsv.observe(objs)
        events.append(ev)
        if len(objs) > 6:
            break
    return events
