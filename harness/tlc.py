"""Running TLC (model checking / case generation / trace validation) and parsing its output."""
import json
import os
import re
import shutil
import subprocess
import tempfile
import time
from concurrent.futures import ThreadPoolExecutor

SPEC_DIR = os.path.join(os.path.dirname(os.path.dirname(os.path.abspath(__file__))), 'spec')
TLC_JAR = '/opt/veriftools/tla/tla2tools.jar:/opt/veriftools/tla/CommunityModules-deps.jar'


class TLCError(RuntimeError):
    pass


def cfg_value(v):
    """Python value -> TLA+ constant expression usable in a cfg file."""
    if isinstance(v, bool):
        return 'TRUE' if v else 'FALSE'
    if isinstance(v, int):
        return str(v)
    if isinstance(v, str):
        return '"%s"' % v
    if isinstance(v, (set, frozenset)):
        return '{' + ', '.join(sorted(cfg_value(x) for x in v)) + '}'
    if isinstance(v, (list, tuple)):
        return '<<' + ', '.join(cfg_value(x) for x in v) + '>>'
    raise TypeError(v)


def make_mc(name, base, constants, extra_defs=''):
    """A wrapper module MC_<name> EXTENDS <base> that defines every constant as an operator
    (cfg files cannot express tuples/records); use with make_cfg(..., substituted=True)."""
    lines = ['---- MODULE %s ----' % name, 'EXTENDS %s' % base]
    for k, v in constants.items():
        lines.append('MC_%s == %s' % (k, cfg_value(v)))
    lines.append(extra_defs)
    lines.append('====')
    return '\n'.join(lines) + '\n'


def make_cfg(constants, init='Init', next_='Next', invariants=(), properties=(), constraints=(),
             spec=None, postcondition=None, deadlock=False, view=None, substituted=False):
    lines = []
    if spec:
        lines.append('SPECIFICATION %s' % spec)
    else:
        lines.append('INIT %s' % init)
        lines.append('NEXT %s' % next_)
    if constants:
        lines.append('CONSTANTS')
        for k, v in constants.items():
            if substituted:
                lines.append('    %s <- MC_%s' % (k, k))
            else:
                lines.append('    %s = %s' % (k, cfg_value(v)))
    for i in invariants:
        lines.append('INVARIANT %s' % i)
    for p in properties:
        lines.append('PROPERTY %s' % p)
    for c in constraints:
        lines.append('CONSTRAINT %s' % c)
    if postcondition:
        lines.append('POSTCONDITION %s' % postcondition)
    if view:
        lines.append('VIEW %s' % view)
    lines.append('CHECK_DEADLOCK %s' % ('TRUE' if deadlock else 'FALSE'))
    return '\n'.join(lines) + '\n'


class Workdir:
    """Scratch directory holding symlinks to all spec modules; removed at exit."""

    def __init__(self, salt=None):
        """salt: value of spec/Salt.tla's SaltValue in this scratch directory (None: VERIF_SEED, default 0)"""
        # scratch directories of runs that were killed (timeouts) are not removed by __exit__: drop old ones
        try:
            now = time.time()
            base = tempfile.gettempdir()
            for f in os.listdir(base):
                if f.startswith('verif_tlc_'):
                    q = os.path.join(base, f)
                    if now - os.path.getmtime(q) > 8 * 3600:
                        shutil.rmtree(q, ignore_errors=True)
        except Exception:
            pass
        self.path = tempfile.mkdtemp(prefix='verif_tlc_')
        if salt is None:
            salt = int(os.environ.get('VERIF_SEED', '0') or 0)
        self.salt = int(salt)
        for f in os.listdir(SPEC_DIR):
            if f.endswith('.tla'):
                if f == 'Salt.tla' and self.salt != 0:
                    with open(os.path.join(self.path, f), 'w') as g:
                        g.write('---- MODULE Salt ----\nSaltValue == %d\n====\n' % self.salt)
                else:
                    os.symlink(os.path.join(SPEC_DIR, f), os.path.join(self.path, f))

    def __enter__(self):
        return self

    def __exit__(self, *a):
        shutil.rmtree(self.path, ignore_errors=True)


_STATS = re.compile(r'(\d+) states generated, (\d+) distinct states found')
_DEPTH = re.compile(r'The depth of the complete state graph search is (\d+)')


def run_tlc(workdir, module, cfg_text, tag='run', mc_text=None, workers=1, extra_args=(), env=None, timeout=3600,
            heap='3g', allow_violation=False):
    """Run TLC on `module` with the given cfg; returns dict(stdout, generated, distinct, depth, ok, wall)."""
    cfg_path = os.path.join(workdir.path, '%s_%s.cfg' % (module, tag))
    with open(cfg_path, 'w') as f:
        f.write(cfg_text)
    if mc_text is not None:
        with open(os.path.join(workdir.path, module + '.tla'), 'w') as f:
            f.write(mc_text)
    meta = os.path.join(workdir.path, 'meta_%s' % tag)
    cmd = ['java', '-Xmx%s' % heap, '-Xss64m', '-XX:+UseParallelGC', '-Djava.io.tmpdir=' + workdir.path, '-cp', TLC_JAR, 'tlc2.TLC',
           '-workers', str(workers), '-metadir', meta, '-noGenerateSpecTE',
           '-config', cfg_path] + list(extra_args) + [module + '.tla']
    e = dict(os.environ)
    if env:
        e.update(env)
    t0 = time.time()
    p = subprocess.run(cmd, cwd=workdir.path, env=e, stdout=subprocess.PIPE, stderr=subprocess.STDOUT,
                       text=True, timeout=timeout)
    wall = time.time() - t0
    out = p.stdout
    shutil.rmtree(meta, ignore_errors=True)
    m = _STATS.search(out)
    res = dict(stdout=out, wall=wall, rc=p.returncode,
               generated=int(m.group(1)) if m else 0, distinct=int(m.group(2)) if m else 0)
    dm = _DEPTH.search(out)
    res['depth'] = int(dm.group(1)) if dm else 0
    res['ok'] = ('Model checking completed. No error has been found.' in out) or \
                ('Finished in' in out and 'Error:' not in out and p.returncode == 0)
    if not res['ok'] and not allow_violation:
        lines = [l for l in out.splitlines() if '@@' not in l]
        idx = [i for i, l in enumerate(lines) if l.startswith('Error:')]
        tail = '\n'.join(lines[idx[0]:idx[0] + 25])[:3000] if idx else '\n'.join(lines)[-3000:]
        raise TLCError('TLC failed on %s (%s):\n%s' % (module, tag, tail))
    return res


def parse_marked(stdout, marker='@@CASE'):
    """Extract the JSON payloads printed by PrintT(marker \\o ToJson(x))."""
    out = []
    pre = '"' + marker + ' '
    for line in stdout.splitlines():
        if line.startswith(pre):
            s = json.loads(line)
            out.append(json.loads(s[len(marker) + 1:]))
    return out


def parse_coverage(stdout):
    """Per-action counts from `-coverage` output: {'<Action line ..>': (distinct, total)}."""
    cov = {}
    for m in re.finditer(r'^<(\w+) line \d+, col \d+ to line \d+, col \d+ of module (\w+)>: (\d+):(\d+)', stdout,
                         re.M):
        cov[m.group(1)] = (int(m.group(3)), int(m.group(4)))
    return cov


def run_sharded(base, constants, nshards, tag='gen', parallel=None, marker='@@CASE', invariants=(),
                properties=(), constraints=(), init='Init', next_='Next', salt=None, **kw):
    """Run `nshards` single-worker TLC processes of module `base` (constants + Shard/NShards) in
    parallel.  Returns (cases, stats)."""
    parallel = parallel or int(os.environ.get('VERIF_PROCS', '16'))
    cases = []
    stats = dict(generated=0, distinct=0, wall=0.0, runs=0, depth=0)
    with Workdir(salt) as wd:
        def one(s):
            c = dict(constants)
            if 'Seeds' in c:       # VERIF_SEED shifts the fill seeds of the generated operands
                shift = int(os.environ.get('VERIF_SEED', '0') or 0) % 7
                c['Seeds'] = {x + shift for x in c['Seeds']}
            c['Shard'] = s
            c['NShards'] = nshards
            name = 'MC_%s_%s%d' % (base, tag, s)
            return run_tlc(wd, name, make_cfg(c, init=init, next_=next_, invariants=invariants, properties=properties,
                                              constraints=constraints, substituted=True),
                           tag='%s%d' % (tag, s), mc_text=make_mc(name, base, c), workers=1, **kw)
        t0 = time.time()
        with ThreadPoolExecutor(max_workers=parallel) as ex:
            results = list(ex.map(one, range(nshards)))
        for r in results:
            cases.extend(parse_marked(r['stdout'], marker))
            stats['generated'] += r['generated']
            stats['distinct'] += r['distinct']
            stats['depth'] = max(stats['depth'], r['depth'])
            stats['runs'] += 1
        stats['wall'] = time.time() - t0
    return cases, stats
