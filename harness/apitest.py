"""Run (part of) the repository's own test-suite under the API tracer and validate the recorded traces against
spec/Trace_TTPool.tla (events NewOpaque / Routine / Havoc): C06 on the histories the tests exercise."""
import glob
import json
import os
import shutil
import subprocess
import tempfile

from . import common, tracecheck

QUICK_FILES = ['tests/test_tensor_train.py', 'tests/test_tensordot.py', 'tests/test_sle.py', 'tests/test_evp.py',
               'tests/test_slim.py', 'tests/test_build_core.py']


def record(files=None, workers=4, timeout=3000):
    """returns (list of traces, pytest summary line)"""
    out = tempfile.mkdtemp(prefix='verif_api_')
    try:
        env = dict(os.environ, PYTHONPATH=common.VERIF + os.pathsep + os.environ.get('PYTHONPATH', ''),
                   VERIF_APITRACE_OUT=os.path.join(out, 'tr'), OMP_NUM_THREADS='2', OPENBLAS_NUM_THREADS='2')
        cmd = ['/venv/bin/python', '-m', 'pytest', '-q', '-p', 'no:cacheprovider', '-p', 'harness.pytest_apitrace',
               '--timeout=900', '--continue-on-collection-errors']
        if workers > 1:
            cmd += ['-n', str(workers)]
        cmd += list(files or ['tests'])
        p = subprocess.run(cmd, cwd=common.REPO, env=env, stdout=subprocess.PIPE, stderr=subprocess.STDOUT, text=True,
                           timeout=timeout)
        traces = []
        for f in sorted(glob.glob(os.path.join(out, 'tr.*'))):
            for line in open(f):
                traces.append(json.loads(line))
        tail = [l for l in p.stdout.strip().split('\n') if l.strip()][-1] if p.stdout.strip() else ''
        return traces, tail
    finally:
        shutil.rmtree(out, ignore_errors=True)


def run_stage(rep, tier):
    files = QUICK_FILES if tier == 'quick' else None
    traces, tail = record(files, workers=4 if tier == 'quick' else 6)
    traces = [t for t in traces if t['events']]
    traces.sort(key=lambda t: t['name'])
    for k, t in enumerate(traces):
        t['tid'] = k + 1
    if not traces:
        rep.note('API traces of the repository tests: nothing recorded (%s)' % tail)
        return dict(api_traces=0, api_pytest=tail)
    n = max(1, min(8, len(traces) // 8 + 1))
    chunks = [traces[i::n] for i in range(n)]
    verdicts, stats = tracecheck.validate(chunks)
    ok = nev = 0
    for t in traces:
        kind, detail = verdicts[t['tid']]
        nev += len(t['events'])
        if kind == 'ok':
            ok += 1
        elif kind == 'bad':
            idx, clause = detail.split(':', 1)
            ev = t['events'][int(idx) - 1]
            rep.violation('apitrace:%s:%s' % (ev.get('name', ev['op']), clause),
                          'API trace of %s rejected by spec/Trace_TTPool.tla at event %s (%s %s): clause "%s"' % (
                              t['name'], idx, ev['op'], ev.get('name', ''), clause),
                          dict(kind='api_trace', test=t['name'], event=int(idx) - 1,
                               events=[{k: v for k, v in e.items() if k != 'obs'} for e in t['events']]))
        else:
            raise RuntimeError('API trace %s not consumed by the specification (%s)' % (t['name'], detail))
    return dict(api_traces=len(traces), api_traces_accepted=ok, api_events=nev, api_overflowed=sum(1 for t in traces if t['overflow']),
                api_pytest=tail, api_trace_states=stats['distinct'], api_trace_transitions=stats['generated'])
