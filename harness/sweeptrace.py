"""Code -> spec: record the helper calls of the sweep drivers and validate them against spec/Trace_Sweep.tla."""
import json
import os
import re

import numpy as np

from . import tlc

# (module attribute name, event name, position of the core index argument)
SLE = {'__construct_stack_left_op': 'BuildL', '__construct_stack_right_op': 'BuildR',
       '__construct_micro_matrix_als': 'Micro1', '__construct_micro_matrix_mals': 'Micro2',
       '__update_core_als': 'Update1', '__update_core_mals': 'Update2'}
EVP = {'__construct_left_stacks': 'BuildL', '__construct_right_stacks': 'BuildR', '__construct_micro_matrices': 'Micro1',
       '__update_core': 'Update1'}
ODE = {'__construct_stack_left_op': 'BuildL', '__construct_stack_right_op': 'BuildR',
       '__construct_micro_matrix_als': 'Micro1', '__construct_micro_matrix_mals': 'Micro2',
       '__update_core_tdvp': 'Update1', '__update_core_tdvp2site': 'Update2'}
ARR = {'__arr_construct_stack_left': 'BuildL', '__arr_construct_stack_right': 'BuildR',
       '__arr_construct_micro_matrix': 'Micro1', '__arr_update_core': 'Update1'}


class Recorder:
    """Wraps the module-level helpers of one solver module (add-only, restored on exit)."""

    def __init__(self, module, table):
        self.module, self.table = module, table
        self.events = []
        self.saved = {}
        # the binding is by helper name and by "first positional argument = core index": a refactoring that renames or
        # re-shapes a helper un-binds the recorder (the trace is then skipped with a note, never reported)
        self.bound = all(name in module.__dict__ for name in table)

    def __enter__(self):
        for name, ev in self.table.items():
            if name not in self.module.__dict__:
                continue                       # renamed helper: this sub-check is "not bound" for it
            orig = self.module.__dict__[name]
            self.saved[name] = orig

            def wrapper(*a, _orig=orig, _ev=ev, **kw):
                try:
                    i = int(a[0])
                except Exception:
                    self.bound = False
                    return _orig(*a, **kw)
                if _ev == 'Update1':
                    d = a[-1] if isinstance(a[-1], str) else kw.get('direction', 'forward')
                    self.events.append(['Update1F' if d == 'forward' else 'Update1B', i])
                else:
                    self.events.append([_ev, i])
                return _orig(*a, **kw)
            self.module.__dict__[name] = wrapper
        return self

    def __exit__(self, *exc):
        for name, orig in self.saved.items():
            self.module.__dict__[name] = orig
        return False


def record_all(seed=0):
    """Run every sweep driver on small random inputs; returns list of dict(driver, D, events, raised)."""
    import scikit_tt.tensor_train as tt
    import scikit_tt.solvers.sle as sle
    import scikit_tt.solvers.evp as evp
    import scikit_tt.solvers.ode as ode
    import scikit_tt.data_driven.regression as reg
    import scikit_tt.data_driven.transform as tf
    rng = np.random.RandomState(seed + 11)
    out = []

    def run(driver, D, module, table, fn):
        with Recorder(module, table) as r:
            raised = None
            try:
                from . import common
                with common.watchdog():
                    fn()
            except Exception as e:
                raised = '%s: %s' % (type(e).__name__, e)
        out.append(dict(driver=driver, D=D, events=r.events, raised=raised, bound=r.bound))

    for D in (1, 2, 3, 4):
        dims = [2] * D
        G = tt.rand(dims, dims, ranks=2)
        np.random.seed(seed + D)
        A = G.transpose() @ G + 2 * tt.eye(dims)
        H = G + G.transpose()
        for rk in (1, 2):
            x = tt.rand(dims, [1] * D, ranks=rk)
            b = tt.rand(dims, [1] * D, ranks=1)
            run('als', D, sle, SLE, lambda: sle.als(A, x, b, repeats=2))
            if D >= 2:
                run('mals', D, sle, SLE, lambda: sle.mals(A, x, b, repeats=2, threshold=0))
            run('evp', D, evp, EVP, lambda: evp.als(H, x, repeats=2, solver='eigh'))
            xo = x.copy().ortho_right()
            xo = (1 / xo.norm()) * xo
            run('tdvp1', D, ode, ODE, lambda: ode.tdvp1site(H, xo, 0.01, 2))
            if D >= 2:
                run('tdvp2', D, ode, ODE, lambda: ode.tdvp2site(H, xo, 0.01, 2, threshold=0, max_rank=16))
                run('hybrid', D, ode, ODE, lambda: ode.tdvp(H, xo, 0.01, 1, threshold=0, max_rank=16))
    for p in (2, 3):
        xd = rng.randint(-2, 3, size=(2, 6)).astype(float)
        yd = rng.randint(-2, 3, size=(1, 6)).astype(float)
        basis = [[tf.ConstantFunction(0), tf.Identity(k % 2)] for k in range(p)]
        g = tt.rand([2] * p, [1] * p, ranks=2)
        run('arr', p, reg, ARR, lambda: reg.arr(xd, yd, basis, g, repeats=2, rcond=1e-10, progress=False))
    return out


def validate(traces):
    """Returns ({tid: verdict string or None}, tlc stats)."""
    verdicts = {}
    with tlc.Workdir() as wd:
        path = os.path.join(wd.path, 'sweep.ndjson')
        with open(path, 'w') as f:
            for k, t in enumerate(traces):
                f.write(json.dumps(dict(tid=k + 1, D=t['D'], events=t['events'])) + '\n')
        cfg = tlc.make_cfg({}, spec='TraceSpec', constraints=['TMark'], postcondition='TPost')
        r = tlc.run_tlc(wd, 'Trace_Sweep', cfg, tag='sweep', workers=1, env={'TRACE_FILE': path})
    for m in re.finditer(r'<<"@@BAD", (\d+), "([^"]*)">>', r['stdout']):
        verdicts[int(m.group(1))] = m.group(2)
    for m in re.finditer(r'<<"@@REJECT", (\d+), (-?\d+)>>', r['stdout']):
        verdicts.setdefault(int(m.group(1)), 'not consumed (%s)' % m.group(2))
    return verdicts, r
